#!/opt/veriftools/pyvenv/bin/python
"""Validate MANIFEST.json and evidence/*.json against the schemas in /root/.vp."""
import json, sys, glob, jsonschema
ok = True
man = json.load(open('/verif/MANIFEST.json'))
try:
    jsonschema.validate(man, json.load(open('/root/.vp/MANIFEST.schema.json')))
    print('MANIFEST ok:', len(man['checks']), 'checks,', len(man.get('not_applicable', [])), 'not applicable')
except Exception as e:
    ok = False; print('MANIFEST INVALID', e)
sch = json.load(open('/root/.vp/EVIDENCE.schema.json'))
for f in sorted(glob.glob('/verif/evidence/*.json')):
    try:
        ev = json.load(open(f)); jsonschema.validate(ev, sch)
        c = ev['coverage']
        print(f.split('/')[-1], ev['tier'], 'eval', c['evaluations'], 'distinct_nt', c['distinct_nontrivial'], 'wall', round(ev['wall_s'],1), 'viol', ev.get('violations'))
    except Exception as e:
        ok = False; print(f, 'INVALID', str(e)[:300])
ids = {c['property_id'] for c in man['checks']} | {c['property_id'] for c in man.get('not_applicable', [])}
props = {json.loads(l)['id'] for l in open('/verif/properties.jsonl')}
if ids != props:
    ok = False; print('manifest does not cover', sorted(props - ids), 'extra', sorted(ids - props))
sys.exit(0 if ok else 1)
