//! C16 (thorough tier): bytes -> (consistent flag, version, role name) -> `Role::filename` of a
//! delegated targets role, the one public function every place (loader, cache, editor) derives the
//! metadata file name from. Oracle, without consulting tough's encoder:
//!  * the file name is one plain path component: only bytes from [A-Za-z0-9_.~%-], so no separator,
//!    no NUL, nothing a URL parser treats specially; it is not "." or ".."; every '%' is followed by
//!    two hex digits;
//!  * it has the shape `<stem>.json` / `<version>.<stem>.json`, and percent-decoding the stem (my own
//!    decoder) gives back exactly the role name: a left inverse exists, so two different names never
//!    share a file name, and under consistent snapshots neither do two different (version, name) pairs
//!    (the version prefix is all digits and ends at the first '.');
//!  * joined below a metadata base URL it stays exactly one segment below the base, with no query
//!    and no fragment, and the URL path ends with the file name as it is (so the URL names the file
//!    that is on disk);
//!  * joined below a directory path it stays directly inside the directory.
#![no_main]
use libfuzzer_sys::fuzz_target;
use std::num::NonZeroU64;
use tough::schema::{DelegatedTargets, Role, Targets};

fn hexval(b: u8) -> Option<u8> {
    match b {
        b'0'..=b'9' => Some(b - b'0'),
        b'a'..=b'f' => Some(b - b'a' + 10),
        b'A'..=b'F' => Some(b - b'A' + 10),
        _ => None,
    }
}

fn decode(stem: &str) -> Vec<u8> {
    let b = stem.as_bytes();
    let mut out = Vec::with_capacity(b.len());
    let mut i = 0;
    while i < b.len() {
        if b[i] == b'%' {
            let h = hexval(*b.get(i + 1).expect("'%' at the end of the stem")).expect("'%' not followed by a hex digit");
            let l = hexval(*b.get(i + 2).expect("'%' one before the end of the stem")).expect("'%x' not followed by a hex digit");
            out.push(h << 4 | l);
            i += 3;
        } else {
            out.push(b[i]);
            i += 1;
        }
    }
    out
}

fuzz_target!(|data: &[u8]| {
    if data.len() < 2 {
        return;
    }
    let consistent = data[0] & 1 == 1;
    // versions of one to twenty digits
    let version = match data[0] >> 1 & 3 {
        0 => 1 + u64::from(data[1] % 9),
        1 => 10 + u64::from(data[1]),
        2 => u64::MAX - u64::from(data[1]),
        _ => 1 + u64::from(data[1]) * 0x0101_0101_0101,
    };
    let Ok(name) = std::str::from_utf8(&data[2..]) else { return };
    let role = DelegatedTargets {
        name: name.to_string(),
        targets: Targets::new("1.0.0".into(), NonZeroU64::new(version).unwrap(), Default::default()),
    };
    let f = role.filename(consistent);
    for b in f.bytes() {
        assert!(b.is_ascii_alphanumeric() || b"_.~%-".contains(&b), "file name {f:?} of role {name:?} holds byte {b:#x}");
    }
    assert!(f != "." && f != "..", "file name {f:?}");
    let rest = if consistent {
        let (v, rest) = f.split_once('.').expect("version prefix");
        assert_eq!(v, version.to_string(), "version prefix of {f:?}");
        rest
    } else {
        f.as_str()
    };
    let stem = rest.strip_suffix(".json").unwrap_or_else(|| panic!("file name {f:?} does not end in .json"));
    assert_eq!(decode(stem), name.as_bytes(), "file name {f:?} does not decode back to the role name {name:?}");

    let base = url::Url::parse("https://example.net/some/metadata/").unwrap();
    let u = base.join(&f).unwrap_or_else(|e| panic!("{f:?} does not join: {e}"));
    assert_eq!(u.path(), format!("/some/metadata/{f}"), "URL path for {name:?}");
    assert!(u.query().is_none() && u.fragment().is_none() && u.host_str() == Some("example.net") && u.scheme() == "https", "URL {u} for {name:?}");
    let dir = std::path::Path::new("/sandbox/metadata");
    let p = dir.join(&f);
    assert_eq!(p.parent(), Some(dir), "{p:?} is not directly inside {dir:?}");
    assert_eq!(p.file_name().and_then(|s| s.to_str()), Some(f.as_str()));
});
