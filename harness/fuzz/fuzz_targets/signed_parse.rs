//! C12 / C13 (thorough tier): bytes -> each of the four signed document types. Parsing must never
//! panic. If a document parses: every listed key id equals key_id() of its key (C13); serialising
//! to canonical form, parsing that JSON again and serialising once more gives the same canonical
//! bytes (the form signatures are checked over is stable under a round trip).
#![no_main]
use libfuzzer_sys::fuzz_target;
use serde::Serialize;
use tough::schema::{Role, Root, Signed, Snapshot, Targets, Timestamp};

fn canon<T: Role>(t: &T) -> Option<Vec<u8>> {
    t.canonical_form().ok()
}

fn stable<T: Role + serde::de::DeserializeOwned + Serialize>(doc: &Signed<T>) {
    let Some(c1) = canon(&doc.signed) else { return };
    // the canonical form may contain raw control characters: go through plain serde_json instead
    let plain = serde_json::to_vec(&doc.signed).expect("serialise");
    let again: T = serde_json::from_slice(&plain).expect("own output must parse");
    let c2 = canon(&again).expect("canonical form of the re-parsed document");
    assert_eq!(String::from_utf8_lossy(&c1), String::from_utf8_lossy(&c2), "canonical form changes across a round trip");
}

fuzz_target!(|data: &[u8]| {
    if let Ok(r) = serde_json::from_slice::<Signed<Root>>(data) {
        for (id, k) in &r.signed.keys {
            let kid = k.key_id().expect("key id");
            assert_eq!(id.as_ref(), kid.as_ref(), "root lists a key under a foreign id");
        }
        stable(&r);
    }
    if let Ok(t) = serde_json::from_slice::<Signed<Targets>>(data) {
        if let Some(d) = &t.signed.delegations {
            for (id, k) in &d.keys {
                let kid = k.key_id().expect("key id");
                assert_eq!(id.as_ref(), kid.as_ref(), "delegations list a key under a foreign id");
            }
        }
        stable(&t);
    }
    if let Ok(s) = serde_json::from_slice::<Signed<Snapshot>>(data) {
        stable(&s);
    }
    if let Ok(s) = serde_json::from_slice::<Signed<Timestamp>>(data) {
        stable(&s);
    }
});
