//! C11 (thorough tier): bytes -> serde_json::Value -> canonical formatter, with the oracle inside:
//!  * a value containing a float must be refused, any other value must serialise;
//!  * ASCII-only values: byte equality with an independent canonicaliser;
//!  * every value: the output is well-formed canonical JSON (strict parser: no whitespace, only \" and
//!    \\ escapes, shortest integers, keys strictly ascending by bytes), re-canonicalising the parsed
//!    output is a fixed point, and feeding object members in reverse order gives the same bytes.
#![no_main]
use libfuzzer_sys::fuzz_target;
use serde::ser::{SerializeMap, SerializeSeq};
use serde::{Serialize, Serializer};
use serde_json::Value;

fn lib<T: Serialize>(v: &T) -> Result<Vec<u8>, String> {
    let mut buf = Vec::new();
    let mut ser = serde_json::Serializer::with_formatter(&mut buf, olpc_cjson::CanonicalFormatter::new());
    v.serialize(&mut ser).map_err(|e| e.to_string())?;
    Ok(buf)
}

/// does some object hold two members whose keys have the same canonical (normalised) spelling?
fn has_colliding_keys(v: &Value) -> bool {
    match v {
        Value::Array(a) => a.iter().any(has_colliding_keys),
        Value::Object(m) => {
            let mut seen = std::collections::BTreeSet::new();
            for k in m.keys() {
                let Ok(n) = lib(&Value::String(k.clone())) else { return false };
                if !seen.insert(n) {
                    return true;
                }
            }
            m.values().any(has_colliding_keys)
        }
        _ => false,
    }
}

fn has_float(v: &Value) -> bool {
    match v {
        Value::Number(n) => !(n.is_u64() || n.is_i64()),
        Value::Array(a) => a.iter().any(has_float),
        Value::Object(m) => m.values().any(has_float),
        _ => false,
    }
}

fn ascii_only(v: &Value) -> bool {
    match v {
        Value::String(s) => s.is_ascii(),
        Value::Array(a) => a.iter().all(ascii_only),
        Value::Object(m) => m.iter().all(|(k, x)| k.is_ascii() && ascii_only(x)),
        _ => true,
    }
}

fn ref_str(out: &mut Vec<u8>, s: &str) {
    out.push(b'"');
    for b in s.bytes() {
        if b == b'"' || b == b'\\' {
            out.push(b'\\');
        }
        out.push(b);
    }
    out.push(b'"');
}

fn reference(out: &mut Vec<u8>, v: &Value) {
    match v {
        Value::Null => out.extend_from_slice(b"null"),
        Value::Bool(b) => out.extend_from_slice(if *b { b"true" } else { b"false" }),
        Value::Number(n) => out.extend_from_slice(n.to_string().as_bytes()),
        Value::String(s) => ref_str(out, s),
        Value::Array(a) => {
            out.push(b'[');
            for (i, x) in a.iter().enumerate() {
                if i > 0 {
                    out.push(b',');
                }
                reference(out, x);
            }
            out.push(b']');
        }
        Value::Object(m) => {
            let mut ks: Vec<&String> = m.keys().collect();
            ks.sort_by(|a, b| a.as_bytes().cmp(b.as_bytes()));
            out.push(b'{');
            for (i, k) in ks.iter().enumerate() {
                if i > 0 {
                    out.push(b',');
                }
                ref_str(out, k);
                out.push(b':');
                reference(out, &m[*k]);
            }
            out.push(b'}');
        }
    }
}

struct Rev<'a>(&'a Value);
impl Serialize for Rev<'_> {
    fn serialize<S: Serializer>(&self, s: S) -> Result<S::Ok, S::Error> {
        match self.0 {
            Value::Array(a) => {
                let mut q = s.serialize_seq(Some(a.len()))?;
                for x in a {
                    q.serialize_element(&Rev(x))?;
                }
                q.end()
            }
            Value::Object(m) => {
                let mut q = s.serialize_map(Some(m.len()))?;
                for (k, x) in m.iter().rev() {
                    q.serialize_entry(k, &Rev(x))?;
                }
                q.end()
            }
            other => other.serialize(s),
        }
    }
}

/// strict parser of the canonical form back into a Value (control characters appear literally)
struct P<'a> {
    b: &'a [u8],
    i: usize,
}
impl P<'_> {
    fn string(&mut self) -> Result<String, String> {
        if self.b.get(self.i) != Some(&b'"') {
            return Err("expected string".into());
        }
        self.i += 1;
        let mut out = Vec::new();
        loop {
            match self.b.get(self.i) {
                None => return Err("unterminated".into()),
                Some(b'"') => {
                    self.i += 1;
                    break;
                }
                Some(b'\\') => match self.b.get(self.i + 1) {
                    Some(c @ (b'"' | b'\\')) => {
                        out.push(*c);
                        self.i += 2;
                    }
                    _ => return Err("bad escape".into()),
                },
                Some(c) => {
                    out.push(*c);
                    self.i += 1;
                }
            }
        }
        String::from_utf8(out).map_err(|e| e.to_string())
    }
    fn value(&mut self) -> Result<Value, String> {
        match self.b.get(self.i).copied() {
            Some(b'n') if self.b[self.i..].starts_with(b"null") => {
                self.i += 4;
                Ok(Value::Null)
            }
            Some(b't') if self.b[self.i..].starts_with(b"true") => {
                self.i += 4;
                Ok(Value::Bool(true))
            }
            Some(b'f') if self.b[self.i..].starts_with(b"false") => {
                self.i += 5;
                Ok(Value::Bool(false))
            }
            Some(b'"') => self.string().map(Value::String),
            Some(b'[') => {
                self.i += 1;
                let mut v = Vec::new();
                if self.b.get(self.i) == Some(&b']') {
                    self.i += 1;
                    return Ok(Value::Array(v));
                }
                loop {
                    v.push(self.value()?);
                    match self.b.get(self.i) {
                        Some(b',') => self.i += 1,
                        Some(b']') => {
                            self.i += 1;
                            return Ok(Value::Array(v));
                        }
                        _ => return Err("bad array".into()),
                    }
                }
            }
            Some(b'{') => {
                self.i += 1;
                let mut m = serde_json::Map::new();
                let mut last: Option<String> = None;
                if self.b.get(self.i) == Some(&b'}') {
                    self.i += 1;
                    return Ok(Value::Object(m));
                }
                loop {
                    let k = self.string()?;
                    if let Some(l) = &last {
                        if l.as_bytes() >= k.as_bytes() {
                            return Err(format!("keys not strictly ascending: {l:?} {k:?}"));
                        }
                    }
                    last = Some(k.clone());
                    if self.b.get(self.i) != Some(&b':') {
                        return Err("expected colon".into());
                    }
                    self.i += 1;
                    let v = self.value()?;
                    m.insert(k, v);
                    match self.b.get(self.i) {
                        Some(b',') => self.i += 1,
                        Some(b'}') => {
                            self.i += 1;
                            return Ok(Value::Object(m));
                        }
                        _ => return Err("bad object".into()),
                    }
                }
            }
            Some(c) if c == b'-' || c.is_ascii_digit() => {
                let st = self.i;
                if c == b'-' {
                    self.i += 1;
                }
                let ds = self.i;
                while self.b.get(self.i).map_or(false, |c| c.is_ascii_digit()) {
                    self.i += 1;
                }
                let d = &self.b[ds..self.i];
                if d.is_empty() || (d.len() > 1 && d[0] == b'0') || &self.b[st..self.i] == b"-0" {
                    return Err("number not in shortest form".into());
                }
                let t = std::str::from_utf8(&self.b[st..self.i]).unwrap();
                if let Ok(u) = t.parse::<u64>() {
                    Ok(Value::from(u))
                } else if let Ok(i) = t.parse::<i64>() {
                    Ok(Value::from(i))
                } else {
                    Err("integer out of range".into())
                }
            }
            _ => Err(format!("unexpected byte at {}", self.i)),
        }
    }
}

fuzz_target!(|data: &[u8]| {
    let Ok(v) = serde_json::from_slice::<Value>(data) else { return };
    let out = lib(&v);
    if has_float(&v) {
        assert!(out.is_err(), "a value containing a float was serialised: {:?}", out.map(|b| String::from_utf8_lossy(&b).to_string()));
        return;
    }
    let out = match out {
        Ok(b) => b,
        Err(e) => {
            // objects whose member keys coincide after normalisation are outside the property's
            // domain (the formatter refuses them); any other refusal of a float-free value is a failure
            if e.contains("same key after normalization") && has_colliding_keys(&v) {
                return;
            }
            panic!("float-free value refused: {e:?}");
        }
    };
    if ascii_only(&v) {
        let mut r = Vec::new();
        reference(&mut r, &v);
        assert_eq!(String::from_utf8_lossy(&out), String::from_utf8_lossy(&r), "differs from the OLPC form");
    }
    let mut p = P { b: &out, i: 0 };
    let back = p.value().unwrap_or_else(|e| panic!("output is not strict canonical JSON ({e}): {:?}", String::from_utf8_lossy(&out)));
    assert_eq!(p.i, out.len(), "trailing bytes");
    let again = lib(&back).expect("re-canonicalising");
    assert_eq!(String::from_utf8_lossy(&again), String::from_utf8_lossy(&out), "not a fixed point");
    let rev = lib(&Rev(&v)).expect("reversed order");
    assert_eq!(String::from_utf8_lossy(&rev), String::from_utf8_lossy(&out), "depends on insertion order");
});
