//! C08 / C06 (thorough tier): bytes -> &str -> TargetName::new. If a name is accepted its resolved
//! form must be safe to join below a directory: not empty, not "/", no "." or ".." component, no
//! empty component; resolution is idempotent; the raw name is preserved.
#![no_main]
use libfuzzer_sys::fuzz_target;
use tough::TargetName;

fuzz_target!(|data: &[u8]| {
    let Ok(s) = std::str::from_utf8(data) else { return };
    let Ok(t) = TargetName::new(s) else { return };
    assert_eq!(t.raw(), s, "raw name altered");
    let r = t.resolved();
    assert!(!r.is_empty() && r != "/", "unsafe resolved name {r:?} for {s:?}");
    let rel = r.strip_prefix('/').unwrap_or(r);
    for comp in rel.split('/') {
        assert!(comp != ".." && comp != "." && !comp.is_empty(), "resolved name {r:?} of {s:?} has component {comp:?}");
    }
    // joining the relative part below a directory stays below it
    let base = std::path::Path::new("/sandbox/out");
    let joined = base.join(rel);
    assert!(joined.starts_with(base), "{joined:?} escapes {base:?}");
    let again = TargetName::new(r.to_string()).expect("resolved name must itself be acceptable");
    assert_eq!(again.resolved(), r, "resolution is not idempotent for {s:?}");
});
