//! C13 (thorough tier): bytes -> `tough::schema::key::Key`. If a key object parses:
//!  * `key_id()` succeeds and is 32 bytes;
//!  * when everything in the key's own serialisation is ASCII, the id equals SHA-256 of that
//!    serialisation put into canonical form by the independent canonicaliser below (members sorted,
//!    no whitespace, only `"` and `\` escaped) - the identifier is the digest of the content;
//!  * serialising the key and parsing it again gives an equal key with an equal id (nothing that
//!    enters the id is lost or invented across a round trip);
//!  * a root document that lists the key under its own id parses, and under any other id (one bit
//!    flipped) is refused.
#![no_main]
use libfuzzer_sys::fuzz_target;
use serde_json::{json, Value};
use tough::schema::key::Key;
use tough::schema::{Root, Signed};

fn ref_str(out: &mut Vec<u8>, s: &str) {
    out.push(b'"');
    for b in s.bytes() {
        if b == b'"' || b == b'\\' {
            out.push(b'\\');
        }
        out.push(b);
    }
    out.push(b'"');
}

fn reference(out: &mut Vec<u8>, v: &Value) {
    match v {
        Value::Null => out.extend_from_slice(b"null"),
        Value::Bool(b) => out.extend_from_slice(if *b { b"true" } else { b"false" }),
        Value::Number(n) => out.extend_from_slice(n.to_string().as_bytes()),
        Value::String(s) => ref_str(out, s),
        Value::Array(a) => {
            out.push(b'[');
            for (i, x) in a.iter().enumerate() {
                if i > 0 {
                    out.push(b',');
                }
                reference(out, x);
            }
            out.push(b']');
        }
        Value::Object(m) => {
            let mut ks: Vec<&String> = m.keys().collect();
            ks.sort_by(|a, b| a.as_bytes().cmp(b.as_bytes()));
            out.push(b'{');
            for (i, k) in ks.iter().enumerate() {
                if i > 0 {
                    out.push(b',');
                }
                ref_str(out, k);
                out.push(b':');
                reference(out, &m[*k]);
            }
            out.push(b'}');
        }
    }
}

fn plain(v: &Value) -> bool {
    match v {
        Value::String(s) => s.is_ascii(),
        Value::Number(n) => n.is_u64() || n.is_i64(),
        Value::Array(a) => a.iter().all(plain),
        Value::Object(m) => m.iter().all(|(k, x)| k.is_ascii() && plain(x)),
        _ => true,
    }
}

fn root_with(id_hex: &str, key: &Value) -> Vec<u8> {
    let role = json!({"keyids": [], "threshold": 1});
    serde_json::to_vec(&json!({
        "signatures": [],
        "signed": {
            "_type": "root", "spec_version": "1.0.0", "consistent_snapshot": false, "version": 1,
            "expires": "2030-01-01T00:00:00Z",
            "keys": { id_hex: key },
            "roles": {"root": role, "snapshot": role, "targets": role, "timestamp": role}
        }
    }))
    .unwrap()
}

fuzz_target!(|data: &[u8]| {
    let Ok(key) = serde_json::from_slice::<Key>(data) else { return };
    let Ok(v) = serde_json::to_value(&key) else { return };
    let id = match key.key_id() {
        Ok(id) => id,
        // a float inside an unknown member cannot be put into canonical form: no id, no trust
        Err(_) if !plain(&v) => return,
        Err(e) => panic!("no key id for a key whose serialisation is plain: {e}"),
    };
    let id: &[u8] = id.as_ref();
    assert_eq!(id.len(), 32);
    if plain(&v) {
        let mut c = Vec::new();
        reference(&mut c, &v);
        let want = aws_lc_rs::digest::digest(&aws_lc_rs::digest::SHA256, &c);
        assert_eq!(hex::encode(id), hex::encode(want.as_ref()), "key id is not the digest of the canonical form {}", String::from_utf8_lossy(&c));
    }
    let again: Key = serde_json::from_value(v.clone()).expect("a key's own serialisation must parse");
    assert_eq!(again, key, "key changes across a round trip");
    assert_eq!(again.key_id().expect("id of the re-parsed key").as_ref(), id, "key id changes across a round trip");

    if plain(&v) {
        let good = root_with(&hex::encode(id), &v);
        let r = serde_json::from_slice::<Signed<Root>>(&good).unwrap_or_else(|e| panic!("root listing the key under its own id refused: {e}"));
        assert_eq!(r.signed.keys.len(), 1);
        let mut other = id.to_vec();
        let at = usize::from(data[0]) % 32;
        other[at] ^= 1 << (data.len() % 8);
        let bad = root_with(&hex::encode(&other), &v);
        assert!(serde_json::from_slice::<Signed<Root>>(&bad).is_err(), "root lists the key under a foreign id {} and parses", hex::encode(&other));
    }
});
