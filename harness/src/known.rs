//! /verif/known_findings.json: committed list of genuine defects that were recorded rather than
//! repaired (`status: "known"`) or repaired by a `fix:` commit (`status: "fixed"`). Read-only at
//! run time. A `fixed` entry suppresses nothing.

use serde::Deserialize;
use std::collections::BTreeMap;

#[derive(Debug, Clone, Deserialize)]
pub struct Entry {
    pub property: String,
    pub key: String,
    pub status: String,
    #[serde(default)]
    pub signature: String,
    #[serde(default)]
    pub what: String,
    #[serde(default)]
    pub commit: Option<String>,
}

#[derive(Debug, Clone, Default)]
pub struct KnownFindings {
    entries: BTreeMap<(String, String), Entry>,
}

impl KnownFindings {
    pub fn load(path: &std::path::Path) -> Result<Self, String> {
        let data = match std::fs::read(path) {
            Ok(d) => d,
            Err(e) if e.kind() == std::io::ErrorKind::NotFound => return Ok(Self::default()),
            Err(e) => return Err(format!("cannot read {}: {e}", path.display())),
        };
        #[derive(Deserialize)]
        struct File {
            findings: Vec<Entry>,
        }
        let f: File = serde_json::from_slice(&data)
            .map_err(|e| format!("cannot parse {}: {e}", path.display()))?;
        let mut entries = BTreeMap::new();
        for e in f.findings {
            entries.insert((e.property.clone(), e.key.clone()), e);
        }
        Ok(Self { entries })
    }

    /// true iff the finding `key` of `property` is listed with status "known".
    pub fn is_known(&self, property: &str, key: &str) -> bool {
        self.entries
            .get(&(property.to_string(), key.to_string()))
            .map_or(false, |e| e.status == "known")
    }

    pub fn get(&self, property: &str, key: &str) -> Option<&Entry> {
        self.entries.get(&(property.to_string(), key.to_string()))
    }

    pub fn for_property<'a>(&'a self, property: &'a str) -> impl Iterator<Item = &'a Entry> + 'a {
        self.entries.values().filter(move |e| e.property == property)
    }
}
