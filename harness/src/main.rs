#![allow(dead_code, unused_imports, clippy::all)]
//! tough-verif: property-based checks for awslabs/tough (see /verif/DESIGN.md).
//!
//!   tough-verif check <ID> [--tier quick|thorough] [--seed N]
//!   tough-verif replay <file>
//!
//! exit 0: held on everything explored (KNOWN-FINDING lines allowed)
//! exit 1: `VIOLATION property=<id> replay=<path>`
//! exit 2: the machinery itself could not run (never a violation)

mod cjson;
mod engine;
mod forge;
mod fuzz;
mod keys;
mod known;
mod props;
mod rt;
mod transport;

use engine::{Ctx, PartReport, Tier};
use serde_json::{json, Value};
use std::path::{Path, PathBuf};
use std::sync::atomic::AtomicBool;

pub fn verif_root() -> PathBuf {
    PathBuf::from(env!("CARGO_MANIFEST_DIR")).parent().unwrap().to_path_buf()
}

/// Builds tuftool from /repo's working tree into a target directory under /verif (C17, C20).
pub fn build_tuftool() -> Result<PathBuf, String> {
    let target = verif_root().join("harness").join("target-tuftool");
    let out = std::process::Command::new("cargo")
        .args(["build", "--offline", "-p", "tuftool", "--bin", "tuftool"])
        .current_dir(std::env::var("VERIF_REPO_DIR").unwrap_or_else(|_| "/repo".to_string()))
        .env("CARGO_TARGET_DIR", &target)
        .env("CARGO_NET_OFFLINE", "true")
        .env("CARGO_TERM_COLOR", "never")
        .output()
        .map_err(|e| format!("cannot run cargo: {e}"))?;
    if !out.status.success() {
        let err = String::from_utf8_lossy(&out.stderr);
        let tail: Vec<&str> = err.lines().rev().take(40).collect();
        return Err(format!("tuftool build failed:\n{}", tail.into_iter().rev().collect::<Vec<_>>().join("\n")));
    }
    let bin = target.join("debug").join("tuftool");
    if bin.exists() {
        Ok(bin)
    } else {
        Err(format!("{} missing after build", bin.display()))
    }
}

fn usage() -> ! {
    eprintln!("usage: tough-verif check <ID> [--tier quick|thorough] [--seed N] | replay <file> | list");
    std::process::exit(2);
}

fn main() {
    let args: Vec<String> = std::env::args().skip(1).collect();
    if args.is_empty() {
        usage();
    }
    engine::install_panic_hook();
    // children spawned by C15 re-enter through this binary
    if args[0] == "child" {
        std::process::exit(props::child_main(&args[1..]));
    }
    let known = match known::KnownFindings::load(&verif_root().join("known_findings.json")) {
        Ok(k) => k,
        Err(e) => {
            eprintln!("harness error: {e}");
            std::process::exit(2);
        }
    };
    match args[0].as_str() {
        "build-tools" => {
            std::process::exit(match build_tuftool() {
                Ok(p) => {
                    eprintln!("tuftool at {}", p.display());
                    0
                }
                Err(e) => {
                    eprintln!("harness error: {e}");
                    2
                }
            });
        }
        "list" => {
            for p in props::ALL {
                println!("{p}");
            }
        }
        "check" => {
            if args.len() < 2 {
                usage();
            }
            let id = args[1].clone();
            let mut tier = match std::env::var("VERIF_TIER").ok().as_deref() {
                Some("thorough") => Tier::Thorough,
                _ => Tier::Quick,
            };
            let mut seed: u64 = std::env::var("VERIF_SEED").ok().and_then(|s| s.trim().parse::<i128>().ok()).map(|v| v as u64).unwrap_or(0);
            let mut i = 2;
            while i < args.len() {
                match args[i].as_str() {
                    "--tier" => {
                        tier = match args.get(i + 1).map(|s| s.as_str()) {
                            Some("quick") => Tier::Quick,
                            Some("thorough") => Tier::Thorough,
                            _ => usage(),
                        };
                        i += 2;
                    }
                    "--seed" => {
                        seed = args.get(i + 1).and_then(|s| s.parse::<i128>().ok()).map(|v| v as u64).unwrap_or_else(|| usage());
                        i += 2;
                    }
                    _ => usage(),
                }
            }
            let shards = std::env::var("VERIF_SHARDS").ok().and_then(|s| s.parse().ok()).unwrap_or(14usize);
            let scale = std::env::var("VERIF_SCALE").ok().and_then(|s| s.parse().ok()).unwrap_or(1.0f64);
            let ctx = Ctx { tier, seed, shards, scale, known, stop: AtomicBool::new(false) };
            std::process::exit(run_check(&ctx, &id));
        }
        "replay" => {
            if args.len() < 2 {
                usage();
            }
            let ctx = Ctx { tier: Tier::Quick, seed: 0, shards: 1, scale: 1.0, known, stop: AtomicBool::new(false) };
            std::process::exit(run_replay(&ctx, Path::new(&args[1])));
        }
        _ => usage(),
    }
}

fn run_check(ctx: &Ctx, id: &str) -> i32 {
    let t0 = std::time::Instant::now();
    let Some(info) = props::info(id) else {
        eprintln!("unknown property {id}");
        return 2;
    };
    // directed probes for listed findings first: KNOWN-FINDING lines
    let probes = props::probes(ctx, id);
    for p in &probes {
        if p.reproduced && ctx.known.is_known(id, &p.key) {
            println!("KNOWN-FINDING: property={id} {}", p.what);
        }
    }
    let parts = props::check(ctx, id);
    let wall = t0.elapsed().as_secs_f64();
    let failure = parts.iter().find_map(|p| p.failure.clone());
    let trouble = parts.iter().find_map(|p| p.trouble.clone());
    let violations = if failure.is_some() { 1 } else { 0 };
    write_evidence(ctx, id, &info, &parts, &probes, wall, violations);
    for p in &parts {
        eprintln!(
            "[{id}/{}] evaluations={} distinct_nontrivial={} known_hits={} inconclusive={} exhaustive={} {:.1}s",
            p.part, p.evaluations, p.distinct_nontrivial, p.known_finding_hits, p.inconclusive, p.exhaustive, p.wall_s
        );
    }
    if let Some(f) = failure {
        let replay_dir = verif_root().join("replays");
        let _ = std::fs::create_dir_all(&replay_dir);
        let body = json!({"property": id, "part": f.part, "case": f.case, "message": f.message, "seed": ctx.seed, "tier": ctx.tier.name()});
        let text = serde_json::to_string_pretty(&body).unwrap();
        let h = &cjson::sha256_hex(text.as_bytes())[..12];
        let path = replay_dir.join(format!("{id}-{h}.json"));
        if let Err(e) = std::fs::write(&path, text) {
            eprintln!("harness error: cannot write replay {}: {e}", path.display());
            return 2;
        }
        eprintln!("violation in part {}: {}", f.part, f.message);
        println!("VIOLATION property={id} replay={}", path.display());
        return 1;
    }
    if let Some(t) = trouble {
        eprintln!("harness error: {t}");
        return 2;
    }
    0
}

fn run_replay(ctx: &Ctx, path: &Path) -> i32 {
    let data = match std::fs::read(path) {
        Ok(d) => d,
        Err(e) => {
            eprintln!("cannot read {}: {e}", path.display());
            return 2;
        }
    };
    let v: Value = match serde_json::from_slice(&data) {
        Ok(v) => v,
        Err(e) => {
            eprintln!("cannot parse {}: {e}", path.display());
            return 2;
        }
    };
    let (Some(id), Some(part)) = (v["property"].as_str(), v["part"].as_str()) else {
        eprintln!("replay file lacks property/part");
        return 2;
    };
    let o = props::replay(ctx, id, part, &v["case"]);
    eprintln!("labels: {:?}", o.labels);
    match o.fail {
        Some(msg) => {
            eprintln!("replay reproduces: {msg}");
            println!("VIOLATION property={id} replay={}", path.display());
            1
        }
        None => {
            if o.inconclusive > 0 {
                eprintln!("replay inconclusive");
                2
            } else {
                eprintln!("replay passes");
                0
            }
        }
    }
}

fn write_evidence(ctx: &Ctx, id: &str, info: &props::Info, parts: &[PartReport], probes: &[props::Probe], wall: f64, violations: i64) {
    let evaluations: u64 = parts.iter().map(|p| p.evaluations).sum();
    let distinct: u64 = parts.iter().map(|p| p.distinct_nontrivial).sum();
    let mut samples: Vec<Value> = Vec::new();
    for p in parts {
        for s in p.samples.iter().take(3) {
            samples.push(json!({"part": p.part, "case": s}));
        }
    }
    if samples.is_empty() {
        samples.push(json!({"note": "no case was generated (run stopped early)"}));
    }
    let rule = parts.iter().map(|p| format!("[{}] {}", p.part, p.rule)).collect::<Vec<_>>().join(" || ");
    let all_exhaustive = !parts.is_empty() && parts.iter().all(|p| p.exhaustive);
    let ev = json!({
        "property_id": id,
        "tier": ctx.tier.name(),
        "seed": ctx.seed as i64,
        "level": info.level,
        "coverage": {
            "evaluations": evaluations,
            "distinct_nontrivial": distinct,
            "rule": rule,
            "samples": samples,
            "exhaustive": all_exhaustive,
            "parts": parts,
            "known_finding_probes": probes,
            "known_finding_hits": parts.iter().map(|p| p.known_finding_hits).sum::<u64>(),
            "inconclusive": parts.iter().map(|p| p.inconclusive).sum::<u64>(),
            "shards": ctx.shards,
        },
        "assumptions": info.assumptions,
        "wall_s": wall,
        "violations": violations,
    });
    let dir = verif_root().join("evidence");
    let _ = std::fs::create_dir_all(&dir);
    let path = dir.join(format!("{id}.json"));
    if let Err(e) = std::fs::write(&path, serde_json::to_string_pretty(&ev).unwrap()) {
        eprintln!("harness error: cannot write evidence {}: {e}", path.display());
    }
}
