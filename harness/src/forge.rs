//! Independent repository forge. Builds every document as a `serde_json::Value`, canonicalises with
//! the harness' own encoder (`cjson`), signs with pool keys through aws-lc-rs directly and computes
//! key ids itself. It never asks tough how to sign or how to name a key.

use crate::cjson::{canon, sha256_hex};
use crate::keys::{key, PoolKey};
use crate::rt::{rfc3339, t0};
use crate::transport::{MemTransport, Resp};
use chrono::{DateTime, Duration, Utc};
use serde::{Deserialize, Serialize};
use serde_json::{json, Map, Value};
use std::collections::BTreeMap;

#[derive(Clone, Debug, Serialize, Deserialize, PartialEq, Eq)]
pub struct RoleKeys {
    pub keys: Vec<usize>,
    pub threshold: u64,
}

impl RoleKeys {
    pub fn one(k: usize) -> Self {
        RoleKeys { keys: vec![k], threshold: 1 }
    }
    pub fn new(keys: Vec<usize>, threshold: u64) -> Self {
        RoleKeys { keys, threshold }
    }
}

#[derive(Clone, Debug)]
pub struct RootSpec {
    pub version: u64,
    pub expires: DateTime<Utc>,
    pub consistent: bool,
    pub root: RoleKeys,
    pub timestamp: RoleKeys,
    pub snapshot: RoleKeys,
    pub targets: RoleKeys,
    pub extra: Vec<(String, Value)>,
}

impl RootSpec {
    pub fn basic(version: u64, consistent: bool) -> Self {
        RootSpec {
            version,
            expires: t0() + Duration::days(365),
            consistent,
            root: RoleKeys::one(0),
            timestamp: RoleKeys::one(1),
            snapshot: RoleKeys::one(2),
            targets: RoleKeys::one(3),
            extra: vec![],
        }
    }
    pub fn all_keys(&self) -> Vec<usize> {
        let mut v: Vec<usize> = self
            .root
            .keys
            .iter()
            .chain(&self.timestamp.keys)
            .chain(&self.snapshot.keys)
            .chain(&self.targets.keys)
            .copied()
            .collect();
        v.sort_unstable();
        v.dedup();
        v
    }
}

pub fn key_table(idxs: &[usize]) -> Value {
    let mut m = Map::new();
    for i in idxs {
        let k = key(*i);
        m.insert(k.keyid.clone(), k.public.clone());
    }
    Value::Object(m)
}

pub fn role_obj(rk: &RoleKeys) -> Value {
    json!({
        "keyids": rk.keys.iter().map(|i| key(*i).keyid.clone()).collect::<Vec<_>>(),
        "threshold": rk.threshold,
    })
}

pub fn root_signed(s: &RootSpec) -> Value {
    let mut v = json!({
        "_type": "root",
        "spec_version": "1.0.0",
        "consistent_snapshot": s.consistent,
        "version": s.version,
        "expires": rfc3339(s.expires),
        "keys": key_table(&s.all_keys()),
        "roles": {
            "root": role_obj(&s.root),
            "timestamp": role_obj(&s.timestamp),
            "snapshot": role_obj(&s.snapshot),
            "targets": role_obj(&s.targets),
        }
    });
    for (k, x) in &s.extra {
        v[k] = x.clone();
    }
    v
}

pub fn sig_entry(k: &PoolKey, canonical: &[u8]) -> Value {
    json!({"keyid": k.keyid, "sig": hex::encode(k.sign(canonical))})
}

pub fn envelope(signed: Value, sigs: Vec<Value>) -> Value {
    json!({"signed": signed, "signatures": sigs})
}

pub fn sign_with(signed: &Value, signers: &[usize]) -> Value {
    let c = canon(signed).expect("forge documents contain no floats");
    let sigs = signers.iter().map(|i| sig_entry(key(*i), &c)).collect();
    envelope(signed.clone(), sigs)
}

#[derive(Clone, Copy, Debug, Serialize, Deserialize, PartialEq, Eq)]
pub enum Style {
    Compact,
    Pretty,
    /// pretty with a trailing newline (what the editor writes)
    PrettyNl,
}

pub fn to_bytes(doc: &Value, style: Style) -> Vec<u8> {
    match style {
        Style::Compact => serde_json::to_vec(doc).unwrap(),
        Style::Pretty => serde_json::to_vec_pretty(doc).unwrap(),
        Style::PrettyNl => {
            let mut v = serde_json::to_vec_pretty(doc).unwrap();
            v.push(b'\n');
            v
        }
    }
}

pub fn meta_entry(version: u64, bytes: &[u8], with_hash: bool, with_len: bool) -> Value {
    let mut m = json!({"version": version});
    if with_hash {
        m["hashes"] = json!({"sha256": sha256_hex(bytes)});
    }
    if with_len {
        m["length"] = json!(bytes.len());
    }
    m
}

pub fn target_entry(content: &[u8]) -> Value {
    json!({"length": content.len(), "hashes": {"sha256": sha256_hex(content)}})
}

/// Percent-encode a role name into a file name component: everything except ALPHA, DIGIT and
/// `-._~` is escaped (RFC 3986 unreserved set, as the property's role-name mapping documents).
pub fn enc_name(name: &str) -> String {
    let mut s = String::new();
    for b in name.bytes() {
        if b.is_ascii_alphanumeric() || matches!(b, b'-' | b'.' | b'_' | b'~') {
            s.push(b as char);
        } else {
            s.push_str(&format!("%{b:02X}"));
        }
    }
    s
}

#[derive(Clone, Debug, Serialize, Deserialize, PartialEq, Eq)]
pub enum PathSpec {
    Paths(Vec<String>),
    HashPrefixes(Vec<String>),
}

#[derive(Clone, Debug)]
pub struct DelegNode {
    pub name: String,
    pub keys: RoleKeys,
    pub paths: PathSpec,
    pub terminating: bool,
    pub version: u64,
    pub expires: DateTime<Utc>,
    pub targets: Vec<(String, Vec<u8>)>,
    pub children: Vec<DelegNode>,
    pub extra: Vec<(String, Value)>,
}

impl DelegNode {
    pub fn new(name: &str, k: usize, paths: PathSpec) -> Self {
        DelegNode {
            name: name.to_string(),
            keys: RoleKeys::one(k),
            paths,
            terminating: false,
            version: 1,
            expires: t0() + Duration::days(365),
            targets: vec![],
            children: vec![],
            extra: vec![],
        }
    }
}

pub fn delegations_obj(children: &[DelegNode]) -> Value {
    let mut all: Vec<usize> = children.iter().flat_map(|c| c.keys.keys.iter().copied()).collect();
    all.sort_unstable();
    all.dedup();
    let roles: Vec<Value> = children
        .iter()
        .map(|c| {
            let mut r = json!({
                "name": c.name,
                "keyids": c.keys.keys.iter().map(|i| key(*i).keyid.clone()).collect::<Vec<_>>(),
                "threshold": c.keys.threshold,
                "terminating": c.terminating,
            });
            match &c.paths {
                PathSpec::Paths(p) => r["paths"] = json!(p),
                PathSpec::HashPrefixes(p) => r["path_hash_prefixes"] = json!(p),
            }
            r
        })
        .collect();
    json!({"keys": key_table(&all), "roles": roles})
}

pub fn targets_signed(
    version: u64,
    expires: DateTime<Utc>,
    targets: &[(String, Vec<u8>)],
    children: &[DelegNode],
    extra: &[(String, Value)],
) -> Value {
    let mut t = Map::new();
    for (n, c) in targets {
        t.insert(n.clone(), target_entry(c));
    }
    let mut v = json!({
        "_type": "targets",
        "spec_version": "1.0.0",
        "version": version,
        "expires": rfc3339(expires),
        "targets": Value::Object(t),
    });
    if !children.is_empty() {
        v["delegations"] = delegations_obj(children);
    }
    for (k, x) in extra {
        v[k] = x.clone();
    }
    v
}

pub fn snapshot_signed(version: u64, expires: DateTime<Utc>, meta: Map<String, Value>) -> Value {
    json!({"_type":"snapshot","spec_version":"1.0.0","version":version,"expires":rfc3339(expires),"meta":Value::Object(meta)})
}

pub fn timestamp_signed(version: u64, expires: DateTime<Utc>, meta: Map<String, Value>) -> Value {
    json!({"_type":"timestamp","spec_version":"1.0.0","version":version,"expires":rfc3339(expires),"meta":Value::Object(meta)})
}

/// Provides the signature list for a role: `(role name, signed value, canonical bytes)`.
/// Role names: "root:<version>", "timestamp", "snapshot", "targets", or the delegated role's name.
pub type SigProvider<'a> = &'a dyn Fn(&str, &Value, &[u8]) -> Option<Vec<Value>>;

/// A complete repository state with sensible defaults; every field can be bent.
#[derive(Clone, Debug)]
pub struct Simple {
    /// root chain, ascending versions; the last one is the current root
    pub roots: Vec<RootSpec>,
    pub ts_version: u64,
    pub snap_version: u64,
    pub targets_version: u64,
    /// version of targets.json as listed in snapshot (normally == targets_version)
    pub listed_targets_version: Option<u64>,
    /// version of snapshot.json as listed in timestamp
    pub listed_snap_version: Option<u64>,
    pub ts_expires: DateTime<Utc>,
    pub snap_expires: DateTime<Utc>,
    pub targets_expires: DateTime<Utc>,
    pub targets: Vec<(String, Vec<u8>)>,
    pub delegs: Vec<DelegNode>,
    pub pin_snap_hash: bool,
    pub pin_snap_len: bool,
    pub pin_targets_hash: bool,
    pub pin_targets_len: bool,
    pub pin_deleg_hash: bool,
    pub pin_deleg_len: bool,
    pub style: Style,
    pub targets_extra: Vec<(String, Value)>,
    pub snapshot_extra: Vec<(String, Value)>,
    pub timestamp_extra: Vec<(String, Value)>,
    /// which root epoch's keys sign timestamp / snapshot / targets (default: last)
    pub online_epoch: Option<usize>,
}

impl Simple {
    pub fn basic(consistent: bool) -> Self {
        let exp = t0() + Duration::days(365);
        Simple {
            roots: vec![RootSpec::basic(1, consistent)],
            ts_version: 1,
            snap_version: 1,
            targets_version: 1,
            listed_targets_version: None,
            listed_snap_version: None,
            ts_expires: exp,
            snap_expires: exp,
            targets_expires: exp,
            targets: vec![],
            delegs: vec![],
            pin_snap_hash: true,
            pin_snap_len: true,
            pin_targets_hash: true,
            pin_targets_len: true,
            pin_deleg_hash: false,
            pin_deleg_len: false,
            style: Style::Compact,
            targets_extra: vec![],
            snapshot_extra: vec![],
            timestamp_extra: vec![],
            online_epoch: None,
        }
    }

    pub fn current_root(&self) -> &RootSpec {
        self.roots.last().unwrap()
    }

    pub fn build(&self) -> Built {
        self.build_with(&|_, _, _| None)
    }

    pub fn build_with(&self, sigs: SigProvider<'_>) -> Built {
        self.build_full(&|_, _| {}, sigs)
    }

    /// `patch(role, signed)` may rewrite any signed portion before it is signed (and before the
    /// documents above it pin its hash).
    pub fn build_full(&self, patch: &dyn Fn(&str, &mut Value), sigs: SigProvider<'_>) -> Built {
        let cur = self.current_root();
        let consistent = cur.consistent;
        let epoch = &self.roots[self.online_epoch.unwrap_or(self.roots.len() - 1)];
        let mut b = Built::default();
        b.consistent = consistent;

        let sign = |role: &str, signed: &Value, default_signers: &[usize]| -> Value {
            let mut signed = signed.clone();
            patch(role, &mut signed);
            let c = canon(&signed).expect("no floats");
            let list = sigs(role, &signed, &c)
                .unwrap_or_else(|| default_signers.iter().map(|i| sig_entry(key(*i), &c)).collect());
            envelope(signed, list)
        };

        // roots
        for (i, r) in self.roots.iter().enumerate() {
            let signed = root_signed(r);
            let mut signers = r.root.keys.clone();
            if i > 0 {
                for k in &self.roots[i - 1].root.keys {
                    if !signers.contains(k) {
                        signers.push(*k);
                    }
                }
            }
            let doc = sign(&format!("root:{}", r.version), &signed, &signers);
            let bytes = to_bytes(&doc, self.style);
            b.meta.insert(format!("{}.root.json", r.version), bytes.clone());
            b.docs.insert(format!("root:{}", r.version), doc);
            b.root_bytes.insert(r.version, bytes);
        }

        // delegated roles, depth-first; collect snapshot meta
        let mut snap_meta = Map::new();
        fn walk(
            s: &Simple,
            nodes: &[DelegNode],
            consistent: bool,
            b: &mut Built,
            snap_meta: &mut Map<String, Value>,
            sign: &dyn Fn(&str, &Value, &[usize]) -> Value,
        ) {
            for n in nodes {
                let signed = targets_signed(n.version, n.expires, &n.targets, &n.children, &n.extra);
                let doc = sign(&n.name, &signed, &n.keys.keys);
                let bytes = to_bytes(&doc, s.style);
                let fname = if consistent {
                    format!("{}.{}.json", n.version, enc_name(&n.name))
                } else {
                    format!("{}.json", enc_name(&n.name))
                };
                snap_meta.insert(
                    format!("{}.json", n.name),
                    meta_entry(n.version, &bytes, s.pin_deleg_hash, s.pin_deleg_len),
                );
                b.meta.insert(fname, bytes);
                b.docs.insert(n.name.clone(), doc);
                for (tn, c) in &n.targets {
                    b.add_target_file(consistent, tn, c);
                }
                walk(s, &n.children, consistent, b, snap_meta, sign);
            }
        }
        walk(self, &self.delegs, consistent, &mut b, &mut snap_meta, &sign);

        // targets
        let tsigned = targets_signed(
            self.targets_version,
            self.targets_expires,
            &self.targets,
            &self.delegs,
            &self.targets_extra,
        );
        let tdoc = sign("targets", &tsigned, &epoch.targets.keys);
        let tbytes = to_bytes(&tdoc, self.style);
        for (tn, c) in &self.targets {
            b.add_target_file(consistent, tn, c);
        }
        let listed_t = self.listed_targets_version.unwrap_or(self.targets_version);
        snap_meta.insert(
            "targets.json".into(),
            meta_entry(listed_t, &tbytes, self.pin_targets_hash, self.pin_targets_len),
        );
        b.meta.insert(
            if consistent { format!("{}.targets.json", self.targets_version) } else { "targets.json".into() },
            tbytes,
        );
        b.docs.insert("targets".into(), tdoc);

        // snapshot
        let mut ssigned = snapshot_signed(self.snap_version, self.snap_expires, snap_meta);
        for (k, x) in &self.snapshot_extra {
            ssigned[k] = x.clone();
        }
        let sdoc = sign("snapshot", &ssigned, &epoch.snapshot.keys);
        let sbytes = to_bytes(&sdoc, self.style);
        let listed_s = self.listed_snap_version.unwrap_or(self.snap_version);
        let mut ts_meta = Map::new();
        ts_meta.insert(
            "snapshot.json".into(),
            meta_entry(listed_s, &sbytes, self.pin_snap_hash, self.pin_snap_len),
        );
        b.meta.insert(
            if consistent { format!("{}.snapshot.json", self.snap_version) } else { "snapshot.json".into() },
            sbytes,
        );
        b.docs.insert("snapshot".into(), sdoc);

        // timestamp
        let mut tssigned = timestamp_signed(self.ts_version, self.ts_expires, ts_meta);
        for (k, x) in &self.timestamp_extra {
            tssigned[k] = x.clone();
        }
        let tsdoc = sign("timestamp", &tssigned, &epoch.timestamp.keys);
        b.meta.insert("timestamp.json".into(), to_bytes(&tsdoc, self.style));
        b.docs.insert("timestamp".into(), tsdoc);
        b
    }
}

/// The harness' own resolution of path-like target names ("a/../b" -> "b", "./a" -> "a").
pub fn resolve_name(name: &str) -> String {
    let absolute = name.starts_with('/');
    let mut out: Vec<&str> = Vec::new();
    for seg in name.split('/') {
        match seg {
            "" | "." => {}
            ".." => {
                out.pop();
            }
            s => out.push(s),
        }
    }
    let j = out.join("/");
    if absolute {
        format!("/{j}")
    } else {
        j
    }
}

#[derive(Clone, Debug, Default)]
pub struct Built {
    pub consistent: bool,
    /// metadata file name (as served below the metadata base URL) -> bytes
    pub meta: BTreeMap<String, Vec<u8>>,
    /// target file name (as served below the targets base URL, unescaped) -> bytes
    pub target_files: BTreeMap<String, Vec<u8>>,
    /// root version -> bytes
    pub root_bytes: BTreeMap<u64, Vec<u8>>,
    /// role -> signed envelope as a Value
    pub docs: BTreeMap<String, Value>,
}

impl Built {
    pub fn add_target_file(&mut self, consistent: bool, name: &str, content: &[u8]) {
        // targets are published under their resolved name
        let name = resolve_name(name);
        let f = if consistent { format!("{}.{}", sha256_hex(content), name) } else { name.to_string() };
        self.target_files.insert(f, content.to_vec());
    }
    pub fn install(&self, mem: &MemTransport) {
        for (f, b) in &self.meta {
            mem.set_meta(f, Resp::body(b.clone()));
        }
        for (f, b) in &self.target_files {
            mem.set_target(f, Resp::body(b.clone()));
        }
    }
    pub fn install_meta(&self, mem: &MemTransport) {
        for (f, b) in &self.meta {
            mem.set_meta(f, Resp::body(b.clone()));
        }
    }
    pub fn shipped(&self, version: u64) -> Vec<u8> {
        self.root_bytes[&version].clone()
    }
}

/// Result of one client cycle.
pub type LoadResult = Result<tough::Repository, tough::error::Error>;

#[derive(Clone, Debug)]
pub struct LoadOpts {
    pub datastore: Option<std::path::PathBuf>,
    pub limits: Option<tough::Limits>,
    pub enforcement: Option<tough::ExpirationEnforcement>,
}

impl Default for LoadOpts {
    fn default() -> Self {
        LoadOpts { datastore: None, limits: None, enforcement: None }
    }
}

pub fn load(mem: &MemTransport, root: &[u8], opts: &LoadOpts) -> LoadResult {
    let root = root.to_vec();
    let mut l = tough::RepositoryLoader::new(&root, crate::transport::meta_url(), crate::transport::targets_url())
        .transport(mem.clone());
    if let Some(d) = &opts.datastore {
        l = l.datastore(d.clone());
    }
    if let Some(li) = opts.limits {
        l = l.limits(li);
    }
    if let Some(e) = opts.enforcement {
        l = l.expiration_enforcement(e);
    }
    crate::rt::block_on(l.load())
}

/// Error classification by Display/Debug text of tough's error (the enum is large; we classify the
/// variants the oracles care about).
#[derive(Clone, Copy, Debug, PartialEq, Eq, Serialize, Deserialize)]
pub enum ErrClass {
    SigThreshold,
    Expired,
    OlderMetadata,
    VersionMismatch,
    HashMismatch,
    MaxSize,
    ParseMetadata,
    ParseTrusted,
    VerifyTrusted,
    Transport,
    MaxUpdates,
    TimeBackward,
    RoleNotInMeta,
    MetaMissing,
    InvalidPath,
    Datastore,
    Other,
}

pub fn classify(e: &tough::error::Error) -> ErrClass {
    use tough::error::Error as E;
    // walk the source chain for the size / hash causes wrapped in Transport errors
    fn chain_contains(e: &(dyn std::error::Error + 'static), needle: &str) -> bool {
        let mut cur: Option<&(dyn std::error::Error + 'static)> = Some(e);
        while let Some(x) = cur {
            if x.to_string().contains(needle) {
                return true;
            }
            cur = x.source();
        }
        false
    }
    match e {
        E::VerifyMetadata { source: tough::schema::Error::SignatureThreshold { .. }, .. } => ErrClass::SigThreshold,
        E::VerifyTrustedMetadata { source: tough::schema::Error::SignatureThreshold { .. }, .. } => ErrClass::VerifyTrusted,
        E::ExpiredMetadata { .. } => ErrClass::Expired,
        E::OlderMetadata { .. } => ErrClass::OlderMetadata,
        E::VersionMismatch { .. } => ErrClass::VersionMismatch,
        E::HashMismatch { .. } => ErrClass::HashMismatch,
        E::MaxSizeExceeded { .. } => ErrClass::MaxSize,
        E::ParseMetadata { .. } => ErrClass::ParseMetadata,
        E::ParseTrustedMetadata { .. } => ErrClass::ParseTrusted,
        E::MaxUpdatesExceeded { .. } => ErrClass::MaxUpdates,
        E::SystemTimeSteppedBackward { .. } => ErrClass::TimeBackward,
        E::RoleNotInMeta { .. } => ErrClass::RoleNotInMeta,
        E::MetaMissing { .. } => ErrClass::MetaMissing,
        E::InvalidPath { .. } => ErrClass::InvalidPath,
        E::DatastoreCreate { .. } | E::DatastoreOpen { .. } | E::DatastoreRemove { .. } | E::DatastoreSerialize { .. } | E::DatastoreInit { .. } => ErrClass::Datastore,
        E::Transport { .. } => {
            if chain_contains(e, "Maximum size") || chain_contains(e, "exceeded") {
                ErrClass::MaxSize
            } else if chain_contains(e, "Hash mismatch") || chain_contains(e, "hash mismatch") {
                ErrClass::HashMismatch
            } else {
                ErrClass::Transport
            }
        }
        _ => ErrClass::Other,
    }
}

/// For a signature-threshold failure: which role type tough says failed.
pub fn failed_role(e: &tough::error::Error) -> Option<String> {
    use tough::error::Error as E;
    match e {
        E::VerifyMetadata { role, .. } => Some(role.to_string()),
        E::VerifyTrustedMetadata { .. } => Some("trusted-root".to_string()),
        _ => None,
    }
}

pub fn describe(r: &LoadResult) -> String {
    match r {
        Ok(repo) => format!(
            "Ok(root v{}, timestamp v{}, snapshot v{}, targets v{})",
            repo.root().signed.version,
            repo.timestamp().signed.version,
            repo.snapshot().signed.version,
            repo.targets().signed.version
        ),
        Err(e) => format!("Err({:?}: {})", classify(e), e),
    }
}
