//! Thorough-tier sub-engine: coverage-guided fuzzing with cargo-fuzz / libFuzzer (nightly).
//! The oracle lives inside each target (harness/fuzz/fuzz_targets/*.rs); a crash is a violation,
//! the saved input is the replay unit. If the fuzzing tool chain is unavailable the part reports
//! that in its labels and the proptest parts stand alone (never a violation, never exit 2).

use crate::engine::{Ctx, Failure, PartReport};
use serde_json::json;
use std::path::PathBuf;
use std::process::Command;

fn fuzz_dir() -> PathBuf {
    crate::verif_root().join("harness").join("fuzz")
}

fn cargo_fuzz(args: &[&str]) -> Command {
    let mut c = Command::new("cargo");
    c.arg("+nightly").arg("fuzz").args(args);
    c.current_dir(crate::verif_root().join("harness"));
    c.env("CARGO_NET_OFFLINE", "true").env("CARGO_TERM_COLOR", "never");
    c
}

pub fn run(ctx: &Ctx, id: &str, target: &str, runs: u64, max_len: u32) -> PartReport {
    let t0 = std::time::Instant::now();
    let part = format!("fuzz:{target}");
    let mut rep = PartReport {
        part: part.clone(),
        rule: format!("libFuzzer target `{target}` (oracle inside the target, see harness/fuzz/fuzz_targets/{target}.rs): {runs} runs, -seed from VERIF_SEED, fresh corpus seeded with harness/fuzz/seeds/{target}; evaluations = executions, distinct non-trivial = inputs libFuzzer kept because they reached new coverage"),
        ..Default::default()
    };
    let fd = fuzz_dir();
    let fds = fd.to_string_lossy().to_string();
    let b = cargo_fuzz(&["build", "--fuzz-dir", &fds, target]).output();
    match b {
        Ok(o) if o.status.success() => {}
        Ok(o) => {
            let err = String::from_utf8_lossy(&o.stderr);
            rep.labels.insert(format!("fuzz-unavailable: build failed: {}", err.lines().rev().take(3).collect::<Vec<_>>().join(" | ")), 1);
            eprintln!("[{id}/{part}] fuzz build failed; the proptest parts stand alone");
            rep.wall_s = t0.elapsed().as_secs_f64();
            return rep;
        }
        Err(e) => {
            rep.labels.insert(format!("fuzz-unavailable: {e}"), 1);
            rep.wall_s = t0.elapsed().as_secs_f64();
            return rep;
        }
    }
    let work = match tempfile::tempdir() {
        Ok(w) => w,
        Err(e) => {
            rep.labels.insert(format!("fuzz-unavailable: {e}"), 1);
            return rep;
        }
    };
    let corpus = work.path().join("corpus");
    let artifacts = work.path().join("artifacts");
    std::fs::create_dir_all(&corpus).ok();
    std::fs::create_dir_all(&artifacts).ok();
    let seeds = fd.join("seeds").join(target);
    let seed = if ctx.seed == 0 { 1 } else { ctx.seed % (u32::MAX as u64) };
    let out = cargo_fuzz(&["run", "--fuzz-dir", &fds, target])
        .arg(&corpus)
        .arg(&seeds)
        .arg("--")
        .arg(format!("-runs={runs}"))
        .arg(format!("-seed={seed}"))
        .arg("-len_control=0")
        .arg(format!("-max_len={max_len}"))
        .arg(format!("-artifact_prefix={}/", artifacts.display()))
        .arg("-print_final_stats=1")
        .output();
    let out = match out {
        Ok(o) => o,
        Err(e) => {
            rep.labels.insert(format!("fuzz-unavailable: {e}"), 1);
            return rep;
        }
    };
    let text = String::from_utf8_lossy(&out.stderr).to_string();
    // statistics
    let mut execs = 0u64;
    let mut corp = 0u64;
    for l in text.lines() {
        if let Some(x) = l.strip_prefix("stat::number_of_executed_units:") {
            execs = x.trim().parse().unwrap_or(0);
        }
        if l.contains(" corp: ") {
            if let Some(c) = l.split(" corp: ").nth(1).and_then(|r| r.split('/').next()).and_then(|n| n.trim().parse::<u64>().ok()) {
                corp = corp.max(c);
            }
        }
    }
    rep.evaluations = execs;
    rep.distinct_nontrivial = corp;
    rep.nontrivial = corp;
    // a few kept inputs as samples
    if let Ok(rd) = std::fs::read_dir(&corpus) {
        for e in rd.flatten().take(4) {
            if let Ok(b) = std::fs::read(e.path()) {
                rep.samples.push(json!({"input_utf8_lossy": String::from_utf8_lossy(&b[..b.len().min(200)])}));
            }
        }
    }
    // crash?
    let crash = std::fs::read_dir(&artifacts).ok().and_then(|rd| rd.flatten().map(|e| e.path()).find(|p| p.is_file()));
    if let Some(a) = crash {
        let bytes = std::fs::read(&a).unwrap_or_default();
        let h = &crate::cjson::sha256_hex(&bytes)[..12];
        let keep = crate::verif_root().join("replays").join(format!("{id}-fuzz-{target}-{h}.bin"));
        let _ = std::fs::create_dir_all(keep.parent().unwrap());
        let _ = std::fs::write(&keep, &bytes);
        let reason = text.lines().find(|l| l.contains("panicked at") || l.contains("ERROR:")).unwrap_or("crash").to_string();
        let detail: Vec<&str> = text.lines().skip_while(|l| !l.contains("panicked at")).take(4).collect();
        rep.failure = Some(Failure {
            part: part.clone(),
            case: json!({"fuzz_target": target, "artifact": keep.to_string_lossy(), "input_hex": hex::encode(&bytes[..bytes.len().min(4096)])}),
            message: format!("libFuzzer target {target} failed: {reason} {}", detail.join(" ")),
        });
    } else if !out.status.success() {
        rep.labels.insert(format!("fuzz-run-exited-{:?}-without-artifact", out.status.code()), 1);
    }
    rep.wall_s = t0.elapsed().as_secs_f64();
    rep
}

/// replay of a saved fuzz input
pub fn replay(target: &str, input_hex: &str) -> crate::engine::Outcome {
    let mut o = crate::engine::Outcome::new();
    let Ok(bytes) = hex::decode(input_hex) else {
        o.inconclusive = 1;
        return o;
    };
    let Ok(dir) = tempfile::tempdir() else {
        o.inconclusive = 1;
        return o;
    };
    let f = dir.path().join("input.bin");
    let _ = std::fs::write(&f, bytes);
    let fds = fuzz_dir().to_string_lossy().to_string();
    match cargo_fuzz(&["run", "--fuzz-dir", &fds, target]).arg(&f).output() {
        Ok(out) if out.status.success() => {}
        Ok(out) => {
            let text = String::from_utf8_lossy(&out.stderr);
            if text.contains("panicked at") || text.contains("ERROR: libFuzzer") {
                o.fail(text.lines().find(|l| l.contains("panicked at")).unwrap_or("crash").to_string());
            } else {
                o.inconclusive = 1;
            }
        }
        Err(_) => o.inconclusive = 1,
    }
    o
}
