//! C15 — stored trust state survives crashes and I/O failures of the client.
//!
//! The interrupted update cycle runs in a child process (this binary, `child load ...`) under
//! `strace -f -y`. Pass 1 records every file-system call that touches the datastore directory;
//! pass 2 re-runs the identical cycle once per recorded call and fault (SIGKILL on entry = crash
//! before that call / after the previous one, ENOSPC, EIO) using strace's `inject=`. The trace of
//! each injected run must show the fault on the expected call, otherwise the sub-case is counted
//! as inconclusive. Afterwards two cycles run in-process on copies of the datastore the child left
//! behind: (a) against a replayed older repository — must fail; (b) against the current one — must
//! succeed.

use crate::engine::{bx, run_part, Ctx, Mode, Outcome, PartReport, PartSpec};
use crate::forge::{self, DelegNode, LoadOpts, PathSpec, Simple};
use crate::rt::t0;
use proptest::prelude::*;
use serde::{Deserialize, Serialize};
use serde_json::Value;
use std::path::{Path, PathBuf};
use std::process::Command;

pub const KF_TRUNCATE: &str = "datastore-truncate-then-write";

pub fn info() -> super::Info {
    super::Info {
        level: "fault_enumeration",
        assumptions: vec![
            "faults are process death (SIGKILL delivered on entry of a system call) and failing system calls (ENOSPC, EIO) with the page cache intact: no power loss, no torn write inside one write(2)",
            "the client runs with a current-thread runtime and one blocking thread, so that the sequence of datastore system calls is reproducible between pass 1 and pass 2; an injected run whose trace does not show the fault on the expected call is discarded as inconclusive",
            "requires ptrace (strace 6.1); if strace cannot run the check reports exit 2, never a violation",
            "the child runs in a private PID namespace (unshare --pid) so that its process id, and therefore the names of the datastore's temporary files, are identical in the recording and in every injected run",
        ],
    }
}

#[derive(Clone, Debug, Serialize, Deserialize, PartialEq, Eq)]
pub struct Case {
    pub consistent: bool,
    pub delegated: bool,
    /// does the snapshot / targets version go up from state 1 to 2 and from state 2 to 3
    /// (the timestamp version always does)
    pub snap_bump: [bool; 2],
    pub targets_bump: [bool; 2],
    /// the current repository (state 3) comes with a root v2 that replaces the timestamp and the
    /// snapshot keys: the interrupted cycle then also unlinks the stored timestamp.json / snapshot.json
    #[serde(default)]
    pub rotate: bool,
}

fn state(case: &Case, k: usize) -> forge::Built {
    // k = 1, 2, 3
    let mut s = Simple::basic(case.consistent);
    let bumps = |b: &[bool; 2]| 1 + (0..k - 1).filter(|i| b[*i]).count() as u64;
    s.ts_version = k as u64;
    // a targets bump implies a snapshot bump (the snapshot lists the targets version)
    let tv = bumps(&case.targets_bump);
    let both = [case.snap_bump[0] || case.targets_bump[0], case.snap_bump[1] || case.targets_bump[1]];
    s.snap_version = bumps(&both);
    s.targets_version = tv;
    s.targets = vec![("a.txt".into(), format!("a{tv}").into_bytes())];
    if case.rotate && k == 3 {
        let mut r2 = forge::RootSpec::basic(2, case.consistent);
        r2.timestamp = forge::RoleKeys::one(8);
        r2.snapshot = forge::RoleKeys::one(9);
        s.roots = vec![forge::RootSpec::basic(1, case.consistent), r2];
    }
    if case.delegated {
        let mut d = DelegNode::new("d1", 4, PathSpec::Paths(vec!["d/*".into()]));
        d.targets = vec![("d/x".into(), b"x".to_vec())];
        s.delegs = vec![d];
    }
    s.build()
}

fn write_repo(b: &forge::Built, dir: &Path) {
    let m = dir.join("metadata");
    let t = dir.join("targets");
    std::fs::create_dir_all(&m).unwrap();
    std::fs::create_dir_all(&t).unwrap();
    for (f, bytes) in &b.meta {
        std::fs::write(m.join(f), bytes).unwrap();
    }
    for (f, bytes) in &b.target_files {
        let p = t.join(f);
        if let Some(parent) = p.parent() {
            std::fs::create_dir_all(parent).unwrap();
        }
        std::fs::write(p, bytes).unwrap();
    }
    std::fs::write(dir.join("root.json"), &b.root_bytes[&1]).unwrap();
}

fn copy_dir(from: &Path, to: &Path) {
    std::fs::create_dir_all(to).unwrap();
    if let Ok(rd) = std::fs::read_dir(from) {
        for e in rd.flatten() {
            let p = e.path();
            if p.is_file() {
                let _ = std::fs::copy(&p, to.join(e.file_name()));
            }
        }
    }
}

/// in-process cycle through FilesystemTransport
fn cycle(repo: &Path, datastore: &Path) -> Result<(), String> {
    crate::rt::set_now(t0());
    let root = std::fs::read(repo.join("root.json")).unwrap();
    let r = crate::rt::block_on(
        tough::RepositoryLoader::new(
            &root,
            url::Url::from_directory_path(repo.join("metadata")).unwrap(),
            url::Url::from_directory_path(repo.join("targets")).unwrap(),
        )
        .transport(tough::FilesystemTransport)
        .datastore(datastore.to_path_buf())
        .load(),
    );
    r.map(|_| ()).map_err(|e| e.to_string())
}

/// entry point of the traced child: `child load <repo dir> <datastore dir>`
pub fn child_load(args: &[String]) -> i32 {
    if args.len() < 2 {
        return 2;
    }
    tough::verif_hooks::set_now(Some(t0()));
    let repo = PathBuf::from(&args[0]);
    let datastore = PathBuf::from(&args[1]);
    let rt = tokio::runtime::Builder::new_current_thread().enable_all().max_blocking_threads(1).build().unwrap();
    let root = std::fs::read(repo.join("root.json")).unwrap();
    let r = rt.block_on(
        tough::RepositoryLoader::new(
            &root,
            url::Url::from_directory_path(repo.join("metadata")).unwrap(),
            url::Url::from_directory_path(repo.join("targets")).unwrap(),
        )
        .transport(tough::FilesystemTransport)
        .datastore(datastore)
        .load(),
    );
    match r {
        Ok(_) => 0,
        Err(e) => {
            eprintln!("child: {e}");
            3
        }
    }
}

const TRACED: &str = "openat,open,creat,write,pwrite64,writev,rename,renameat,renameat2,unlink,unlinkat,ftruncate,truncate,fsync,fdatasync,link,linkat,symlink,symlinkat,mkdir,mkdirat";

#[derive(Debug, Clone)]
struct Call {
    tid: String,
    name: String,
    /// ordinal of this syscall name within its thread (1-based)
    ordinal: usize,
    /// file name inside the datastore directory
    file: String,
    mutating: bool,
    line: String,
}

fn parse_trace(text: &str, datastore: &str) -> Vec<Call> {
    let mut counts: std::collections::HashMap<(String, String), usize> = Default::default();
    let mut out = Vec::new();
    for line in text.lines() {
        let Some((tid, rest)) = line.split_once(' ') else { continue };
        let rest = rest.trim_start();
        if rest.starts_with("<...") || rest.starts_with("+++") || rest.starts_with("---") {
            continue;
        }
        let Some(paren) = rest.find('(') else { continue };
        let name = rest[..paren].to_string();
        if !name.chars().all(|c| c.is_ascii_alphanumeric() || c == '_') {
            continue;
        }
        let c = counts.entry((tid.to_string(), name.clone())).or_insert(0);
        *c += 1;
        if let Some(pos) = rest.find(datastore) {
            // the path inside the datastore
            let tail = &rest[pos + datastore.len()..];
            let file: String = tail.trim_start_matches('/').chars().take_while(|c| *c != '"' && *c != '>' && *c != ',').collect();
            let mutating = match name.as_str() {
                "openat" | "open" | "creat" => rest.contains("O_WRONLY") || rest.contains("O_RDWR") || rest.contains("O_CREAT") || rest.contains("O_TRUNC") || name == "creat",
                _ => true,
            };
            out.push(Call { tid: tid.to_string(), name, ordinal: *c, file, mutating, line: line.to_string() });
        }
    }
    out
}

fn unshare_available() -> bool {
    static OK: std::sync::OnceLock<bool> = std::sync::OnceLock::new();
    *OK.get_or_init(|| Command::new("unshare").args(["--pid", "--fork", "true"]).output().map(|o| o.status.success()).unwrap_or(false))
}

fn strace_available() -> bool {
    Command::new("strace")
        .args(["-f", "-o", "/dev/null", "-e", "trace=write", "true"])
        .output()
        .map(|o| o.status.success())
        .unwrap_or(false)
}

/// Runs the child under strace. `path_filter`: only system calls touching that file are traced,
/// counted by `when=` and eligible for injection (strace -P). A child that does not finish within
/// 30 s is killed and reported as `None` (inconclusive).
fn run_child(work: &Path, repo: &Path, datastore: &Path, inject: Option<&str>, path_filter: Option<&Path>, tag: &str) -> (Option<i32>, String) {
    let exe = std::env::current_exe().expect("current exe");
    let trace = work.join(format!("trace-{tag}.txt"));
    // a private PID namespace makes the child's process id the same in every run, and with it the
    // names of the datastore's temporary files (`.tmp.<pid>.<n>`), which pass 2 must name for -P
    let mut cmd = if unshare_available() {
        let mut c = Command::new("unshare");
        c.args(["--pid", "--fork", "strace"]);
        c
    } else {
        Command::new("strace")
    };
    cmd.args(["-f", "-y", "-qq", "-s", "0", "-o"]).arg(&trace).args(["-e", &format!("trace={TRACED}")]);
    if let Some(p) = path_filter {
        cmd.arg("-P").arg(p);
    }
    if let Some(i) = inject {
        cmd.args(["-e", &format!("inject={i}")]);
    }
    cmd.arg(exe).args(["child", "load"]).arg(repo).arg(datastore);
    cmd.stdout(std::process::Stdio::null()).stderr(std::process::Stdio::null());
    let code = match cmd.spawn() {
        Err(_) => None,
        Ok(mut ch) => {
            let deadline = std::time::Instant::now() + std::time::Duration::from_secs(30);
            loop {
                match ch.try_wait() {
                    Ok(Some(st)) => break st.code().or(Some(-1)),
                    Ok(None) => {
                        if std::time::Instant::now() > deadline {
                            let _ = ch.kill();
                            let _ = ch.wait();
                            // strace's tracee may survive its tracer: its command line names this datastore
                            let _ = Command::new("pkill").args(["-9", "-f"]).arg(format!("child load .* {}$", datastore.to_string_lossy())).status();
                            break None;
                        }
                        std::thread::sleep(std::time::Duration::from_millis(5));
                    }
                    Err(_) => break None,
                }
            }
        }
    };
    let text = std::fs::read_to_string(&trace).unwrap_or_default();
    let _ = std::fs::remove_file(&trace);
    (code, text)
}

pub fn prop_with(case: &Case, known_truncate: bool) -> Outcome {
    let mut o = Outcome::new();
    o.shape = format!("{:?}", case);
    o.nontrivial = true;
    let work = tempfile::tempdir().expect("tempdir");
    let w = work.path();
    let repos: Vec<PathBuf> = (1..=3).map(|k| w.join(format!("repo{k}"))).collect();
    for k in 1..=3 {
        write_repo(&state(case, k), &repos[k - 1]);
    }
    // datastore after the successful cycle against state 2
    let ds0 = w.join("ds0");
    std::fs::create_dir_all(&ds0).unwrap();
    if let Err(e) = cycle(&repos[1], &ds0) {
        o.fail(format!("initial cycle failed: {e}"));
        return o;
    }
    // sanity of the scenario without any fault
    {
        let a = w.join("sanity-a");
        copy_dir(&ds0, &a);
        if cycle(&repos[0], &a).is_ok() {
            o.fail("scenario broken: the replayed older repository is accepted even without an interruption".to_string());
            return o;
        }
    }
    // pass 1: record
    let ds1 = w.join("ds-pass1");
    copy_dir(&ds0, &ds1);
    let (code, text) = run_child(w, &repos[2], &ds1, None, None, "p1");
    if code != Some(0) {
        o.inconclusive += 1;
        o.label(format!("pass-1 child exited {code:?}"));
        return o;
    }
    let ds1s = ds1.to_string_lossy().to_string();
    let calls = parse_trace(&text, &ds1s);
    if calls.is_empty() {
        o.inconclusive += 1;
        o.label("pass-1 trace shows no datastore calls");
        return o;
    }
    o.label(format!("datastore-calls:{}", (calls.len() / 10) * 10));
    let mut evaluated = 0u64;
    let mut landed = 0u64;
    for (ci, c) in calls.iter().enumerate() {
        // ordinal of this call among the calls of the same name on the same file (strace -P counts those)
        let ord = calls[..=ci].iter().filter(|x| x.name == c.name && x.file == c.file && x.tid == c.tid).count();
        let faults: Vec<(&str, String)> = {
            let mut f = vec![("kill", format!("{}:signal=KILL:when={}", c.name, ord)), ("eio", format!("{}:error=EIO:when={}", c.name, ord))];
            if c.mutating && matches!(c.name.as_str(), "openat" | "open" | "creat" | "write" | "pwrite64" | "writev" | "rename" | "renameat" | "renameat2" | "ftruncate" | "mkdir" | "mkdirat" | "link" | "linkat") {
                f.push(("enospc", format!("{}:error=ENOSPC:when={}", c.name, ord)));
            }
            f
        };
        for (fname, inj) in faults {
            evaluated += 1;
            let ds = w.join(format!("ds-{ci}-{fname}"));
            copy_dir(&ds0, &ds);
            let dss = ds.to_string_lossy().to_string();
            let filter = ds.join(&c.file);
            let (code2, t2) = run_child(w, &repos[2], &ds, Some(&inj), Some(&filter), &format!("{ci}-{fname}"));
            if code2.is_none() {
                o.inconclusive += 1;
                o.label("child-timeout");
                let _ = std::fs::remove_dir_all(&ds);
                continue;
            }
            // did the fault land on the expected call?
            let calls2 = parse_trace(&t2, &dss);
            let ok = if fname == "kill" {
                // the trace ends with the kill, and the calls on this file before it are the expected prefix
                let expected: Vec<&Call> = calls[..ci].iter().filter(|x| x.file == c.file).collect();
                let seen: Vec<&Call> = calls2.iter().filter(|x| x.file == c.file).collect();
                t2.contains("killed by SIGKILL")
                    && seen.len() >= expected.len()
                    && seen.len() <= expected.len() + 1
                    && seen.iter().zip(expected.iter()).all(|(a, b)| a.name == b.name)
            } else {
                let injected: Vec<&Call> = calls2.iter().filter(|x| x.line.contains("(INJECTED)")).collect();
                let all_injected = t2.lines().filter(|l| l.contains("(INJECTED)")).count();
                injected.len() == 1 && all_injected == 1 && injected[0].name == c.name && injected[0].file == c.file
            };
            if !ok {
                o.inconclusive += 1;
                let _ = std::fs::remove_dir_all(&ds);
                continue;
            }
            landed += 1;
            o.label(format!("fault:{fname}"));
            if c.name.starts_with("unlink") {
                o.label("unlink-faulted");
            }
            // (a) replayed older repository must be refused; (b) the current one must load
            let a = w.join(format!("a-{ci}-{fname}"));
            let b = w.join(format!("b-{ci}-{fname}"));
            copy_dir(&ds, &a);
            copy_dir(&ds, &b);
            let ra = cycle(&repos[0], &a);
            let rb = cycle(&repos[2], &b);
            let listing = || {
                let mut v: Vec<String> = std::fs::read_dir(&ds)
                    .map(|rd| rd.flatten().map(|e| format!("{} ({} bytes)", e.file_name().to_string_lossy(), e.metadata().map(|m| m.len()).unwrap_or(0))).collect())
                    .unwrap_or_default();
                v.sort();
                v
            };
            // With a root that replaces the timestamp and snapshot keys the stored timestamp/snapshot
            // stop protecting (C03's exemption, C14); the stored targets.json (keys unchanged) still
            // does. The replay must then fail only if it lowers the targets version.
            let replay_must_fail = !case.rotate || case.targets_bump[0];
            if case.rotate {
                o.label(if replay_must_fail { "rotation:targets-rollback-replayed" } else { "rotation:replay-either" });
            }
            if ra.is_ok() && replay_must_fail {
                // signature of the known finding: a stored role file was left empty
                let truncation = ["timestamp.json", "snapshot.json", "targets.json"].iter().any(|f| std::fs::metadata(ds.join(f)).map(|m| m.len() == 0).unwrap_or(false));
                let msg = format!(
                    "after {fname} at datastore call #{ci} `{} {}` of the interrupted cycle, a replayed OLDER repository (timestamp v1, trusted before: v2; targets version lower: {}) is accepted; datastore left behind: {:?} [{KF_TRUNCATE}]",
                    c.name,
                    c.file,
                    case.targets_bump[0],
                    listing()
                );
                if known_truncate && truncation {
                    o.known_hits += 1;
                    o.label("known:truncate");
                } else {
                    o.fail(msg);
                    return o;
                }
            }
            if let Err(e) = rb {
                o.fail(format!(
                    "after {fname} at datastore call #{ci} `{} {}` of the interrupted cycle, the current (newer, valid) repository is refused: {e}; datastore left behind: {:?}",
                    c.name,
                    c.file,
                    listing()
                ));
                return o;
            }
            for d in [&ds, &a, &b] {
                let _ = std::fs::remove_dir_all(d);
            }
        }
    }
    o.weight = evaluated.max(1);
    if landed == 0 {
        o.label("no-fault-landed");
    } else {
        o.label("faults-landed");
    }
    o
}

fn cases(tier_thorough: bool) -> Vec<Case> {
    let mut v = Vec::new();
    for consistent in [false, true] {
        for delegated in [false, true] {
            for sb in [[false, false], [true, true], [false, true]] {
                for tb in [[false, false], [false, true]] {
                    v.push(Case { consistent, delegated, snap_bump: sb, targets_bump: tb, rotate: false });
                }
            }
        }
    }
    // histories in which the interrupted cycle walks to a root that replaces the timestamp and
    // snapshot keys (so that it also unlinks stored files)
    let mut rot = Vec::new();
    for consistent in [false, true] {
        for tb in [[true, false], [false, false], [true, true]] {
            for delegated in [false, true] {
                rot.push(Case { consistent, delegated, snap_bump: [true, true], targets_bump: tb, rotate: true });
            }
        }
    }
    if !tier_thorough {
        rot.retain(|c| !c.delegated && c.targets_bump != [true, true]);
    }
    if !tier_thorough {
        // quick: the 8 histories in which only the timestamp moves between the replayed and the
        // trusted state (so that the stored timestamp alone carries the protection), plus 4 others
        v.retain(|c| (!c.snap_bump[0] && !c.targets_bump[0]) || (c.consistent && c.delegated));
        v.truncate(12);
    }
    v.extend(rot);
    v
}

pub fn check(ctx: &Ctx) -> Vec<PartReport> {
    if !strace_available() {
        return vec![PartReport { part: "fault-points".into(), trouble: Some("strace (ptrace) is not available in this environment".into()), ..Default::default() }];
    }
    let known = ctx.known.is_known("C15", KF_TRUNCATE);
    let thorough = ctx.tier == crate::engine::Tier::Thorough;
    vec![run_part(
        ctx,
        PartSpec {
            name: "fault-points",
            rule: "histories (both snapshot modes, with/without a delegated role, snapshot/targets versions moving or not between the replayed, the trusted and the current state; 12 in quick, 24 in thorough; plus 4 / 12 histories in which the interrupted cycle walks to a newer root that replaces the timestamp and snapshot keys and therefore also unlinks stored files: there the replay must fail only when it lowers the targets version): successful cycle, then the next cycle interrupted at EVERY file-system call it issues on the datastore directory (enumerated from a recorded trace of that very cycle) by SIGKILL on entry, EIO, and for creating/writing calls ENOSPC (evaluations count injected runs; a run whose own trace does not show the fault on the expected call is inconclusive), then (a) a cycle against the replayed older repository must fail and (b) a cycle against the current repository must succeed, each on a copy of the datastore the interrupted client left behind. Non-trivial: every history; distinct = history",
            mode: Mode::Enumerate { cases: cases(thorough), complete: true },
            prop: Box::new(move |c: &Case| prop_with(c, known)),
            require: vec![("faults-landed", 2), ("fault:kill", 2), ("fault:eio", 2), ("fault:enospc", 2), ("rotation:targets-rollback-replayed", 2), ("unlink-faulted", 2)],
        },
    )]
}

pub fn replay(ctx: &Ctx, _part: &str, case: &Value) -> Outcome {
    let known = ctx.known.is_known("C15", KF_TRUNCATE);
    crate::engine::replay_case::<Case>(case, |c| prop_with(c, known))
}

pub fn probes(_ctx: &Ctx) -> Vec<super::Probe> {
    if !strace_available() {
        return vec![];
    }
    let c = Case { consistent: false, delegated: false, snap_bump: [false, false], targets_bump: [false, false], rotate: false };
    let o = prop_with(&c, false);
    vec![super::Probe {
        key: KF_TRUNCATE.into(),
        what: "Datastore::create truncates the stored file and then writes it: a crash or a failing write in between leaves an empty timestamp.json / snapshot.json / targets.json, after which a replayed older repository is accepted".into(),
        reproduced: o.fail.as_deref().map_or(false, |m| m.contains(KF_TRUNCATE)),
        detail: o.fail.unwrap_or_else(|| "not reproduced".into()),
    }]
}
