//! Shared by C10, C17 and C19: editing programs run against the real `RepositoryEditor`, and a model
//! of the editor's documented semantics that records every operation the editor accepted.

use crate::cjson::sha256_hex;
use crate::engine::pick_idx;
use crate::forge::{self, RoleKeys, RootSpec};
use crate::keys::key;
use chrono::{DateTime, Duration, Utc};
use proptest::prelude::*;
use serde::{Deserialize, Serialize};
use serde_json::{json, Value};
use std::collections::BTreeMap;
use std::num::NonZeroU64;
use std::path::{Path, PathBuf};
use tough::editor::signed::{PathExists, SignedRepository};
use tough::editor::RepositoryEditor;
use tough::key_source::{KeySource, LocalKeySource};
use tough::schema::{PathHashPrefix, PathPattern, PathSet, Target};
use tough::TargetName;

pub const TARGET_NAMES: [&str; 14] = [
    "a.txt", "b.bin", "dir/c.txt", "deep/er/d.dat", "my file.txt", "\u{fc}ml\u{e4}ut.txt", "x/../resolved.txt", "UPPER.TXT", "dots..name", "tilde~1", "plus+sign", "q?mark", "hash#tag", "100%.txt",
];

#[derive(Clone, Debug, Serialize, Deserialize, PartialEq, Eq)]
pub enum PathsGen {
    /// the role's own prefix followed by "/*"
    PrefixStar,
    /// "*" (anything)
    Star,
    /// explicit patterns relative to the role prefix
    Patterns(Vec<String>),
    /// hash prefixes: "" matches everything, or 1 hex digit sets that cover everything
    HashAll,
}

#[derive(Clone, Debug, Serialize, Deserialize, PartialEq, Eq)]
pub enum Op {
    AddTarget { name: u8, size: u16, seed: u8, custom: bool, outside: bool },
    RemoveTarget { pick: u16 },
    ClearTargets,
    SetTargetsVersion(u32),
    SetTargetsExpiry(u16),
    SetSnapshot(u32, u16),
    SetTimestamp(u32, u16),
    Delegate { keys: Vec<u8>, threshold: u8, paths: PathsGen, version: u32 },
    /// sign the role being edited with its keys (all / one missing) and start editing another role
    Switch {
        role: u16,
        drop_key: bool,
        /// hand the editor the first key twice instead of the last key
        #[serde(default)]
        dup_key: bool,
    },
}

#[derive(Clone, Debug, Serialize, Deserialize, PartialEq, Eq)]
pub struct Program {
    pub consistent: bool,
    /// number of keys and threshold of the timestamp, snapshot and targets roles
    pub online: [(u8, u8); 3],
    pub ops: Vec<Op>,
    /// leave out the keys of one top-level role when signing (0 = none, 1 timestamp, 2 snapshot, 3 targets)
    pub sign_without: u8,
    pub link: bool,
}

#[derive(Clone, Debug, PartialEq)]
pub struct MTarget {
    pub len: u64,
    pub sha256: String,
    pub custom: bool,
    pub content: Vec<u8>,
}

#[derive(Clone, Debug)]
pub struct MDeleg {
    pub child: String,
    pub keys: Vec<usize>,
    pub threshold: u64,
    pub paths: PathSet,
}

#[derive(Clone, Debug, Default)]
pub struct MRole {
    pub version: Option<u64>,
    pub expires: Option<DateTime<Utc>>,
    /// what the role's signed document holds (as of its last signing)
    pub targets: BTreeMap<String, MTarget>,
    pub delegs: Vec<MDeleg>,
    pub prefix: String,
    pub keys: Vec<usize>,
    pub threshold: u64,
}

#[derive(Clone, Debug, Default)]
pub struct Model {
    /// signed state of every role ("targets" = top level)
    pub roles: BTreeMap<String, MRole>,
    pub snapshot: (u64, DateTime<Utc>),
    pub timestamp: (u64, DateTime<Utc>),
    pub consistent: bool,
    pub root: Option<RootSpec>,
}

/// the role currently in the targets editor: pending (unsigned) state
#[derive(Clone, Debug)]
struct Pending {
    name: String,
    version: Option<u64>,
    expires: Option<DateTime<Utc>>,
    targets: BTreeMap<String, MTarget>,
    delegs: Vec<MDeleg>,
    new_roles: Vec<(String, MRole)>,
}

pub struct Built {
    pub work: tempfile::TempDir,
    pub root_path: PathBuf,
    pub metadata_dir: PathBuf,
    pub targets_dir: PathBuf,
    pub input_dir: PathBuf,
    pub model: Model,
    pub labels: Vec<String>,
    pub editor_errors: Vec<String>,
}

pub fn key_sources(keys: &[usize]) -> Vec<Box<dyn KeySource>> {
    keys.iter().map(|k| Box::new(LocalKeySource { path: key(*k).priv_path.clone() }) as Box<dyn KeySource>).collect()
}

pub fn expiry(days: u16) -> DateTime<Utc> {
    crate::rt::t0() + Duration::days(1 + days as i64 % 2000) + Duration::seconds(days as i64)
}

pub fn content(size: u16, seed: u8) -> Vec<u8> {
    super::c06::content(size as usize, seed)
}

fn online_keys(role: usize, n: u8) -> Vec<usize> {
    // timestamp 1,2 ; snapshot 3,4 ; targets 5,6,(16 = rsa)
    let base = [[1usize, 2, 12], [3, 4, 13], [5, 6, 16]][role];
    base[..(n.clamp(1, 3) as usize)].to_vec()
}

pub fn root_spec(p: &Program) -> RootSpec {
    let mut r = RootSpec::basic(1, p.consistent);
    r.root = RoleKeys::one(0);
    let rk = |i: usize| {
        let ks = online_keys(i, p.online[i].0);
        let t = (p.online[i].1.clamp(1, 3) as u64).min(ks.len() as u64);
        RoleKeys::new(ks, t)
    };
    r.timestamp = rk(0);
    r.snapshot = rk(1);
    r.targets = rk(2);
    r
}

fn path_set(gen: &PathsGen, prefix: &str) -> PathSet {
    let pre = if prefix.is_empty() { String::new() } else { format!("{prefix}/") };
    match gen {
        PathsGen::PrefixStar | PathsGen::Star if false => unreachable!(),
        PathsGen::PrefixStar => PathSet::Paths(vec![PathPattern::new(format!("{pre}*")).unwrap()]),
        PathsGen::Star => PathSet::Paths(vec![PathPattern::new("*").unwrap()]),
        PathsGen::Patterns(v) => PathSet::Paths(v.iter().filter_map(|x| PathPattern::new(format!("{pre}{x}")).ok()).collect()),
        PathsGen::HashAll => PathSet::PathHashPrefixes("0123456789abcdef".chars().map(|c| PathHashPrefix::new(c.to_string()).unwrap()).collect()),
    }
}

/// candidate keys for delegated roles: ed25519 7..12, ecdsa 13..16, rsa 17..19
const DELEG_KEYS: [usize; 9] = [7, 8, 9, 10, 11, 14, 15, 17, 18];

/// Runs the program against the real editor, maintaining the model. `Err` = the harness could not
/// even set the scenario up (never a verdict); editor errors are recorded, not failures.
pub fn run_program(p: &Program) -> Result<Option<Built>, String> {
    crate::rt::set_now(crate::rt::t0());
    let work = tempfile::tempdir().map_err(|e| e.to_string())?;
    let w = work.path().to_path_buf();
    let input_dir = w.join("input");
    let metadata_dir = w.join("repo").join("metadata");
    let targets_dir = w.join("repo").join("targets");
    std::fs::create_dir_all(&input_dir).map_err(|e| e.to_string())?;
    std::fs::create_dir_all(&targets_dir).map_err(|e| e.to_string())?;
    let rs = root_spec(p);
    let root_doc = forge::sign_with(&forge::root_signed(&rs), &rs.root.keys);
    let root_path = w.join("root.json");
    std::fs::write(&root_path, forge::to_bytes(&root_doc, forge::Style::PrettyNl)).map_err(|e| e.to_string())?;

    let mut labels: Vec<String> = Vec::new();
    let mut errors: Vec<String> = Vec::new();
    let mut model = Model { consistent: p.consistent, root: Some(rs.clone()), snapshot: (1, expiry(30)), timestamp: (1, expiry(3)), ..Default::default() };
    model.roles.insert("targets".into(), MRole { keys: rs.targets.keys.clone(), threshold: rs.targets.threshold, ..Default::default() });
    let mut pending = Pending { name: "targets".into(), version: Some(1), expires: Some(expiry(60)), targets: BTreeMap::new(), delegs: vec![], new_roles: vec![] };
    let mut role_counter = 0usize;
    let mut file_counter = 0usize;
    // every target content ever added, by (role, name): what must be published
    let mut inputs: BTreeMap<String, PathBuf> = BTreeMap::new();

    let outcome: Result<SignedRepository, tough::error::Error> = crate::rt::block_on(async {
        let mut ed = RepositoryEditor::new(&root_path).await?;
        ed.targets_version(NonZeroU64::new(1).unwrap())?;
        ed.targets_expires(expiry(60))?;
        ed.snapshot_version(NonZeroU64::new(1).unwrap()).snapshot_expires(expiry(30));
        ed.timestamp_version(NonZeroU64::new(1).unwrap()).timestamp_expires(expiry(3));
        for op in &p.ops {
            match op {
                Op::AddTarget { name, size, seed, custom, outside } => {
                    let prefix = model.roles.get(&pending.name).map(|r| r.prefix.clone()).unwrap_or_default();
                    let base = TARGET_NAMES[*name as usize % TARGET_NAMES.len()];
                    let full = if *outside || prefix.is_empty() { base.to_string() } else { format!("{prefix}/{base}") };
                    let data = content(*size, *seed);
                    file_counter += 1;
                    let f = input_dir.join(format!("in-{file_counter}"));
                    std::fs::write(&f, &data).unwrap();
                    let mut t = match Target::from_path(&f).await {
                        Ok(t) => t,
                        Err(e) => {
                            errors.push(format!("Target::from_path: {e}"));
                            continue;
                        }
                    };
                    if *custom {
                        t.custom.insert("note".into(), json!({"seed": seed, "list": [1, 2, 3]}));
                    }
                    match ed.add_target(full.as_str(), t) {
                        Ok(_) => {
                            pending.targets.insert(full.clone(), MTarget { len: data.len() as u64, sha256: sha256_hex(&data), custom: *custom, content: data });
                            inputs.insert(format!("{}|{}", pending.name, full), f);
                            if *outside && !prefix.is_empty() {
                                labels.push("target-outside-role-paths".into());
                            }
                        }
                        Err(e) => errors.push(format!("add_target({full:?}): {e}")),
                    }
                }
                Op::RemoveTarget { pick } => {
                    if pending.targets.is_empty() {
                        continue;
                    }
                    let names: Vec<String> = pending.targets.keys().cloned().collect();
                    let n = names[pick_idx(*pick, names.len())].clone();
                    match ed.remove_target(&TargetName::new(n.clone()).unwrap()) {
                        Ok(_) => {
                            pending.targets.remove(&n);
                            labels.push("removed-target".into());
                        }
                        Err(e) => errors.push(format!("remove_target: {e}")),
                    }
                }
                Op::ClearTargets => match ed.clear_targets() {
                    Ok(_) => pending.targets.clear(),
                    Err(e) => errors.push(format!("clear_targets: {e}")),
                },
                Op::SetTargetsVersion(v) => {
                    let v = (*v as u64).max(1);
                    match ed.targets_version(NonZeroU64::new(v).unwrap()) {
                        Ok(_) => pending.version = Some(v),
                        Err(e) => errors.push(format!("targets_version: {e}")),
                    }
                }
                Op::SetTargetsExpiry(d) => match ed.targets_expires(expiry(*d)) {
                    Ok(_) => pending.expires = Some(expiry(*d)),
                    Err(e) => errors.push(format!("targets_expires: {e}")),
                },
                Op::SetSnapshot(v, d) => {
                    let v = (*v as u64).max(1);
                    ed.snapshot_version(NonZeroU64::new(v).unwrap()).snapshot_expires(expiry(*d));
                    model.snapshot = (v, expiry(*d));
                }
                Op::SetTimestamp(v, d) => {
                    let v = (*v as u64).max(1);
                    ed.timestamp_version(NonZeroU64::new(v).unwrap()).timestamp_expires(expiry(*d));
                    model.timestamp = (v, expiry(*d));
                }
                Op::Delegate { keys, threshold, paths, version } => {
                    let parent_prefix = model.roles.get(&pending.name).map(|r| r.prefix.clone()).unwrap_or_default();
                    let depth = parent_prefix.split('/').filter(|s| !s.is_empty()).count();
                    if depth >= 3 || role_counter >= 8 {
                        continue;
                    }
                    role_counter += 1;
                    // creation order and alphabetical order of the role names must not coincide
                    let name = format!("role-{}", [5, 2, 7, 1, 8, 3, 6, 4][(role_counter - 1) % 8]);
                    let seg = format!("p{role_counter}");
                    let prefix = if parent_prefix.is_empty() { seg } else { format!("{parent_prefix}/{seg}") };
                    let mut ks: Vec<usize> = Vec::new();
                    for k in keys {
                        let c = DELEG_KEYS[*k as usize % DELEG_KEYS.len()];
                        if !ks.contains(&c) {
                            ks.push(c);
                        }
                    }
                    if ks.is_empty() {
                        ks.push(DELEG_KEYS[0]);
                    }
                    let thr = (*threshold as u64).clamp(1, 3);
                    let ps = match paths {
                        PathsGen::Star | PathsGen::HashAll => path_set(paths, ""),
                        other => path_set(other, &parent_prefix).clone(),
                    };
                    // the child's own prefix: targets added to it live below `prefix`; its paths as
                    // seen from the parent must cover that
                    let ps = match paths {
                        PathsGen::PrefixStar => PathSet::Paths(vec![PathPattern::new(format!("{prefix}/*")).unwrap()]),
                        _ => ps,
                    };
                    let ver = (*version as u64).max(1);
                    let exp = expiry(45);
                    match ed.delegate_role(&name, &key_sources(&ks), ps.clone(), NonZeroU64::new(thr).unwrap(), exp, NonZeroU64::new(ver).unwrap()).await {
                        Ok(_) => {
                            pending.delegs.push(MDeleg { child: name.clone(), keys: ks.clone(), threshold: thr, paths: ps });
                            pending.new_roles.push((name.clone(), MRole { version: Some(ver), expires: Some(exp), prefix, keys: ks.clone(), threshold: thr, ..Default::default() }));
                            labels.push("delegated-role".into());
                            if thr >= 2 {
                                labels.push("delegated-threshold>=2".into());
                            }
                            if thr as usize > ks.len() {
                                labels.push("threshold-above-keys-accepted".into());
                            }
                        }
                        Err(e) => errors.push(format!("delegate_role({name}): {e}")),
                    }
                }
                Op::Switch { role, drop_key, dup_key } => {
                    // sign the pending role with its keys
                    let cur = model.roles.get(&pending.name).cloned().unwrap_or_default();
                    let mut ks = cur.keys.clone();
                    if *drop_key && ks.len() > 1 {
                        ks.pop();
                    }
                    if *dup_key && ks.len() > 1 {
                        ks.pop();
                        ks.push(ks[0]);
                        labels.push("key-given-twice".into());
                    }
                    match ed.sign_targets_editor(&key_sources(&ks)).await {
                        Ok(_) => {
                            commit(&mut model, &mut pending);
                            // pick the next role
                            let names: Vec<String> = model.roles.keys().cloned().collect();
                            let next = names[pick_idx(*role, names.len())].clone();
                            match ed.change_delegated_targets(&next) {
                                Ok(_) => {
                                    let r = model.roles[&next].clone();
                                    pending = Pending { name: next.clone(), version: None, expires: None, targets: r.targets.clone(), delegs: r.delegs.clone(), new_roles: vec![] };
                                    if next != "targets" {
                                        labels.push("edited-delegated-role".into());
                                    }
                                }
                                Err(e) => {
                                    errors.push(format!("change_delegated_targets({next}): {e}"));
                                    // the editor now has no targets editor: go back to the top-level role
                                    ed.change_delegated_targets("targets")?;
                                    let r = model.roles["targets"].clone();
                                    pending = Pending { name: "targets".into(), version: None, expires: None, targets: r.targets.clone(), delegs: r.delegs.clone(), new_roles: vec![] };
                                }
                            }
                        }
                        Err(e) => errors.push(format!("sign_targets_editor({}): {e}", pending.name)),
                    }
                }
            }
        }
        // final signing: keys of all roles involved (top-level roles + the role being edited)
        let mut ks: Vec<usize> = Vec::new();
        let rs2 = &rs;
        for (i, rk) in [&rs2.timestamp, &rs2.snapshot, &rs2.targets].iter().enumerate() {
            if p.sign_without as usize == i + 1 {
                continue;
            }
            ks.extend(rk.keys.iter().copied());
        }
        if pending.name != "targets" {
            ks.extend(model.roles.get(&pending.name).map(|r| r.keys.clone()).unwrap_or_default());
        }
        let signed = ed.sign(&key_sources(&ks)).await?;
        Ok(signed)
    });
    let signed = match outcome {
        Ok(s) => s,
        Err(e) => {
            errors.push(format!("sign: {e}"));
            labels.push("sign-refused".into());
            return Ok(Some(Built { work, root_path, metadata_dir, targets_dir, input_dir, model: Model::default(), labels, editor_errors: errors }));
        }
    };
    commit(&mut model, &mut pending);
    labels.push("sign-ok".into());
    // write metadata and publish targets
    let res: Result<(), String> = crate::rt::block_on(async {
        signed.write(&metadata_dir).await.map_err(|e| format!("write: {e}"))?;
        for (rname, role) in &model.roles {
            for (tname, _) in &role.targets {
                let Some(src) = inputs.get(&format!("{rname}|{tname}")) else { continue };
                let tn = TargetName::new(tname.clone()).map_err(|e| e.to_string())?;
                // the editor does not create parent directories for names with sub-directories
                let rel = if p.consistent { format!("{}.{}", sha256_hex(&std::fs::read(src).unwrap()), tn.resolved()) } else { tn.resolved().to_string() };
                if let Some(parent) = targets_dir.join(&rel).parent() {
                    std::fs::create_dir_all(parent).map_err(|e| e.to_string())?;
                }
                let r = if p.link {
                    signed.link_target(src, &targets_dir, PathExists::Replace, Some(&tn)).await
                } else {
                    signed.copy_target(src, &targets_dir, PathExists::Replace, Some(&tn)).await
                };
                r.map_err(|e| format!("publishing {tname:?}: {e}"))?;
            }
        }
        Ok(())
    });
    if let Err(e) = res {
        // the metadata may still be compared with the model; only the read-back is skipped
        errors.push(e);
        labels.push("publish-refused".into());
    }
    Ok(Some(Built { work, root_path, metadata_dir, targets_dir, input_dir, model, labels, editor_errors: errors }))
}

/// the pending role was signed: its state becomes the role's signed state; new roles come to life
fn commit(model: &mut Model, pending: &mut Pending) {
    let r = model.roles.entry(pending.name.clone()).or_default();
    r.version = pending.version;
    r.expires = pending.expires;
    r.targets = pending.targets.clone();
    r.delegs = pending.delegs.clone();
    for (n, role) in pending.new_roles.drain(..) {
        model.roles.insert(n, role);
    }
}

// ---------------------------------------------------------------------------------------------
// generators

fn paths_gen() -> impl Strategy<Value = PathsGen> {
    prop_oneof![
        6 => Just(PathsGen::PrefixStar),
        2 => Just(PathsGen::Star),
        1 => Just(PathsGen::HashAll),
        1 => prop::collection::vec(prop::sample::select(vec!["*".to_string(), "a*".into(), "*/*".into(), "?.txt".into(), "dir/*".into()]), 1..3).prop_map(PathsGen::Patterns),
    ]
}

pub fn op() -> impl Strategy<Value = Op> {
    prop_oneof![
        8 => (0u8..14, prop_oneof![Just(0u16), Just(1), 1u16..2000, Just(32768u16)], any::<u8>(), prop::bool::weighted(0.3), prop::bool::weighted(0.06))
            .prop_map(|(name, size, seed, custom, outside)| Op::AddTarget { name, size, seed, custom, outside }),
        2 => any::<u16>().prop_map(|pick| Op::RemoveTarget { pick }),
        1 => Just(Op::ClearTargets),
        3 => (1u32..5000).prop_map(Op::SetTargetsVersion),
        2 => any::<u16>().prop_map(Op::SetTargetsExpiry),
        1 => ((1u32..5000), any::<u16>()).prop_map(|(v, d)| Op::SetSnapshot(v, d)),
        1 => ((1u32..5000), any::<u16>()).prop_map(|(v, d)| Op::SetTimestamp(v, d)),
        4 => (prop::collection::vec(0u8..9, 1..=3), prop_oneof![4 => Just(1u8), 2 => Just(2u8), 1 => Just(3u8)], paths_gen(), 1u32..50)
            .prop_map(|(keys, threshold, paths, version)| Op::Delegate { keys, threshold, paths, version }),
        5 => (any::<u16>(), prop::bool::weighted(0.1), prop::bool::weighted(0.15)).prop_map(|(role, drop_key, dup_key)| Op::Switch { role, drop_key, dup_key }),
    ]
}

pub fn program(max_ops: usize) -> impl Strategy<Value = Program> {
    (
        any::<bool>(),
        [(1u8..=3, 1u8..=2), (1u8..=3, 1u8..=2), (1u8..=3, 1u8..=2)],
        prop::collection::vec(op(), 0..max_ops),
        prop_oneof![12 => Just(0u8), 1 => 1u8..=3],
        any::<bool>(),
    )
        .prop_map(|(consistent, online, mut ops, sign_without, link)| {
            // every role that is switched to needs a version and an expiry before it can be signed:
            // follow each Switch with both (the editor forgets them on purpose)
            let mut out = Vec::new();
            for o in ops.drain(..) {
                let sw = matches!(o, Op::Switch { .. });
                out.push(o);
                if sw {
                    out.push(Op::SetTargetsVersion(7));
                    out.push(Op::SetTargetsExpiry(90));
                }
            }
            Program { consistent, online, ops: out, sign_without, link }
        })
}

/// does the url crate rewrite this name when it is joined to a base URL?
pub fn url_rewrites(name: &str) -> bool {
    let base = url::Url::parse("file:///base/dir/").unwrap();
    match base.join(name) {
        Ok(u) => u.path() != format!("/base/dir/{name}") || u.query().is_some() || u.fragment().is_some() || u.scheme() != "file",
        Err(_) => true,
    }
}

pub fn describe_paths(p: &PathSet) -> Value {
    match p {
        PathSet::Paths(v) => json!({"paths": v.iter().map(|x| x.value().to_string()).collect::<Vec<_>>()}),
        PathSet::PathHashPrefixes(v) => json!({"prefixes": v.iter().map(|x| x.value().to_string()).collect::<Vec<_>>()}),
    }
}

pub fn list_files(dir: &Path) -> BTreeMap<String, Vec<u8>> {
    let mut m = BTreeMap::new();
    fn walk(base: &Path, p: &Path, m: &mut BTreeMap<String, Vec<u8>>) {
        if let Ok(rd) = std::fs::read_dir(p) {
            for e in rd.flatten() {
                let path = e.path();
                if path.is_dir() {
                    walk(base, &path, m);
                } else if let Ok(b) = std::fs::read(&path) {
                    m.insert(path.strip_prefix(base).unwrap().to_string_lossy().to_string(), b);
                }
            }
        }
    }
    walk(dir, dir, &mut m);
    m
}
