//! C05 — each role matches what the role above it pinned (no mix-and-match).
//!
//! A timeline of three internally consistent repository states (all roles at version 1, 2, 3),
//! all correctly signed with the same keys. A serving plan answers the client's request for each
//! role with the file of an independently chosen state, optionally in a byte variant that keeps the
//! signatures valid (re-serialised, extra unrelated signature entry, trailing newline).

use crate::cjson::sha256_hex;
use crate::engine::{bx, run_part, Ctx, Mode, Outcome, PartReport, PartSpec};
use crate::forge::{self, classify, DelegNode, ErrClass, LoadOpts, PathSpec, Simple};
use crate::keys::key;
use crate::transport::{MemTransport, Resp};
use proptest::prelude::*;
use serde::{Deserialize, Serialize};
use serde_json::{json, Value};

pub fn info() -> super::Info {
    super::Info {
        level: "exploration",
        assumptions: vec![
            "fresh datastore per case (rollback protection is C03)",
            "byte variants are limited to re-serialisation, one extra signature entry by an unknown key, and a trailing newline",
        ],
    }
}

#[derive(Clone, Copy, Debug, Serialize, Deserialize, PartialEq, Eq)]
pub enum Variant {
    Same,
    Pretty,
    ExtraSig,
    TrailingNewline,
    /// "signed" before "signatures": same length, other bytes
    Reordered,
}

#[derive(Clone, Debug, Serialize, Deserialize, PartialEq, Eq)]
pub struct Case {
    pub consistent: bool,
    /// state (0..3) whose file answers the request for timestamp, snapshot, targets, d1, d2
    pub from: [u8; 5],
    /// byte variant of the served snapshot, targets, d1, d2
    pub variant: [Variant; 4],
    pub pin_snap_hash: bool,
    pub pin_snap_len: bool,
    pub pin_targets_hash: bool,
    pub pin_targets_len: bool,
    pub pin_deleg_len: bool,
    /// the snapshot omits the entry of the depth-2 delegated role
    pub drop_d2_listing: bool,
}

fn state(case: &Case, s: usize) -> forge::Built {
    let v = s as u64 + 1;
    let mut sp = Simple::basic(case.consistent);
    // every role has its own version numbering, so that a version taken from the wrong document
    // is visible
    sp.ts_version = v;
    sp.snap_version = v + 10;
    sp.targets_version = v + 20;
    sp.targets = vec![(format!("top{v}.txt"), format!("top {v}").into_bytes())];
    let mut d2 = DelegNode::new("d2", 5, PathSpec::Paths(vec!["d/e/*".into()]));
    // an unlisted d2 carries the version that the snapshot lists for targets.json, so that falling
    // back to another role's entry would be visible
    d2.version = v + offset(case, 3);
    d2.targets = vec![(format!("d/e/f{v}.txt"), format!("deep {v}").into_bytes())];
    let mut d1 = DelegNode::new("d1", 4, PathSpec::Paths(vec!["d/*".into()]));
    d1.version = v + 30;
    d1.targets = vec![(format!("d/g{v}.txt"), format!("mid {v}").into_bytes())];
    d1.children = vec![d2];
    sp.delegs = vec![d1];
    sp.pin_snap_hash = case.pin_snap_hash;
    sp.pin_snap_len = case.pin_snap_len;
    sp.pin_targets_hash = case.pin_targets_hash;
    sp.pin_targets_len = case.pin_targets_len;
    sp.pin_deleg_len = case.pin_deleg_len;
    if case.drop_d2_listing {
        sp.build_full(
            &|role, signed| {
                if role == "snapshot" {
                    signed["meta"].as_object_mut().unwrap().remove("d2.json");
                }
            },
            &|_, _, _| None,
        )
    } else {
        sp.build()
    }
}

fn vary(bytes: &[u8], v: Variant) -> Vec<u8> {
    match v {
        Variant::Same => bytes.to_vec(),
        Variant::Pretty => {
            let d: Value = serde_json::from_slice(bytes).unwrap();
            serde_json::to_vec_pretty(&d).unwrap()
        }
        Variant::ExtraSig => {
            let mut d: Value = serde_json::from_slice(bytes).unwrap();
            d["signatures"].as_array_mut().unwrap().push(json!({"keyid": key(11).keyid, "sig": "00".repeat(64)}));
            serde_json::to_vec(&d).unwrap()
        }
        Variant::TrailingNewline => {
            let mut b = bytes.to_vec();
            b.push(b'\n');
            b
        }
        Variant::Reordered => {
            let d: Value = serde_json::from_slice(bytes).unwrap();
            let mut b = Vec::new();
            b.extend_from_slice(b"{\"signed\":");
            b.extend_from_slice(&serde_json::to_vec(&d["signed"]).unwrap());
            b.extend_from_slice(b",\"signatures\":");
            b.extend_from_slice(&serde_json::to_vec(&d["signatures"]).unwrap());
            b.push(b'}');
            b
        }
    }
}

/// version offsets of snapshot, targets, d1, d2 relative to the timestamp version of the state
const OFFSET: [u64; 4] = [10, 20, 30, 40];
fn offset(case: &Case, i: usize) -> u64 {
    if i == 3 && case.drop_d2_listing {
        OFFSET[1]
    } else {
        OFFSET[i]
    }
}

fn file_of(b: &forge::Built, role: &str, consistent: bool, v: u64) -> Vec<u8> {
    let name = match (role, consistent) {
        ("timestamp", _) => "timestamp.json".to_string(),
        (r, false) => format!("{r}.json"),
        (r, true) => format!("{v}.{r}.json"),
    };
    b.meta.get(&name).unwrap_or_else(|| panic!("forge did not produce {name}")).clone()
}

pub fn prop(case: &Case) -> Outcome {
    let mut o = Outcome::new();
    crate::rt::set_now(crate::rt::t0());
    let states: Vec<forge::Built> = (0..3).map(|s| state(case, s)).collect();
    let from: Vec<usize> = case.from.iter().map(|x| *x as usize % 3).collect();
    let roles = ["snapshot", "targets", "d1", "d2"];
    let mem = MemTransport::new();
    mem.set_meta("1.root.json", Resp::body(states[0].meta["1.root.json"].clone()));
    mem.set_meta("timestamp.json", Resp::body(file_of(&states[from[0]], "timestamp", case.consistent, 0)));
    let mut served: Vec<Vec<u8>> = Vec::new();
    for (i, r) in roles.iter().enumerate() {
        let st = from[i + 1];
        let bytes = vary(&file_of(&states[st], r, case.consistent, st as u64 + 1 + offset(case, i)), case.variant[i]);
        // whatever URL the client asks for this role, it gets this file
        mem.set_meta(&format!("{r}.json"), Resp::body(bytes.clone()));
        for v in 1..=50 {
            mem.set_meta(&format!("{v}.{r}.json"), Resp::body(bytes.clone()));
        }
        served.push(bytes);
    }
    // oracle
    let t = from[0];
    let orig = |r: &str| {
        let i = roles.iter().position(|x| *x == r).unwrap();
        file_of(&states[t], r, case.consistent, t as u64 + 1 + offset(case, i))
    };
    let pin_ok = |hash: bool, len: bool, o: &[u8], s: &[u8]| (!hash || sha256_hex(o) == sha256_hex(s)) && (!len || s.len() <= o.len());
    let snap_ok = from[1] == t && pin_ok(case.pin_snap_hash, case.pin_snap_len, &orig("snapshot"), &served[0]);
    let targets_ok = from[2] == t && pin_ok(case.pin_targets_hash, case.pin_targets_len, &orig("targets"), &served[1]);
    let d1_ok = from[3] == t && pin_ok(false, case.pin_deleg_len, &orig("d1"), &served[2]);
    let d2_ok = !case.drop_d2_listing && from[4] == t && pin_ok(false, case.pin_deleg_len, &orig("d2"), &served[3]);
    let expect_ok = snap_ok && targets_ok && d1_ok && d2_ok;

    let mixes = from.iter().collect::<std::collections::BTreeSet<_>>().len() >= 2;
    let varied = case.variant.iter().any(|v| *v != Variant::Same);
    o.nontrivial = mixes || varied || case.drop_d2_listing;
    if mixes {
        o.label("mixes-states");
    }
    if varied {
        o.label("byte-variant");
    }
    o.label(if expect_ok { "expect-ok" } else { "expect-reject" });
    if expect_ok && varied {
        o.label("variant-accepted-without-hash-pin");
    }
    o.shape = format!("{:?}", case);

    let r = forge::load(&mem, &states[0].shipped(1), &LoadOpts::default());
    match (&r, expect_ok) {
        (Ok(repo), true) => {
            let v = t as u64 + 1;
            let got = (repo.timestamp().signed.version.get(), repo.snapshot().signed.version.get(), repo.targets().signed.version.get());
            if got != (v, v + 10, v + 20) {
                o.fail(format!("loaded versions {got:?}, expected {:?}", (v, v + 10, v + 20)));
            }
            if case.consistent {
                let reqs = mem.meta_requests();
                let wanted = [format!("{}.snapshot.json", v + 10), format!("{}.targets.json", v + 20), format!("{}.d1.json", v + 30), format!("{}.d2.json", v + 40)];
                for want in wanted.clone() {
                    if !reqs.contains(&want) {
                        o.fail(format!("consistent snapshots: {want} (the file named by the pinning document) was not requested; requests {reqs:?}"));
                    }
                }
                for r in &reqs {
                    if r.ends_with(".json") && !r.ends_with(".root.json") && r != "timestamp.json" && !wanted.contains(r) {
                        o.fail(format!("consistent snapshots: unexpected request {r}; the pinning documents name {wanted:?}"));
                    }
                }
            }
        }
        (Ok(_), false) => {
            o.fail(format!(
                "mix-and-match accepted: timestamp from state {}, snapshot {} ({:?}), targets {} ({:?}), d1 {} ({:?}), d2 {} ({:?}); pins snap(hash {}, len {}) targets(hash {}, len {}) deleg len {}; d2 listing dropped {}",
                from[0], from[1], case.variant[0], from[2], case.variant[1], from[3], case.variant[2], from[4], case.variant[3],
                case.pin_snap_hash, case.pin_snap_len, case.pin_targets_hash, case.pin_targets_len, case.pin_deleg_len, case.drop_d2_listing
            ));
        }
        (Err(e), true) => o.fail(format!("consistent set of files (state {t}) refused: {e}")),
        (Err(e), false) => {
            let c = classify(e);
            if !matches!(c, ErrClass::VersionMismatch | ErrClass::HashMismatch | ErrClass::MaxSize | ErrClass::RoleNotInMeta) {
                o.fail(format!("rejected, but not for a pin mismatch: {c:?} {e}"));
            }
            o.label(format!("reject:{c:?}"));
        }
    }
    o
}


// ---------------------------------------------------------------------------------------------
// part 3: two cycles on one datastore; roles re-issued under an unchanged version number

#[derive(Clone, Debug, Serialize, Deserialize, PartialEq, Eq)]
pub struct ReissueCase {
    pub consistent: bool,
    /// snapshot, targets, d1, d2: keep the version number of the first state but change the content
    pub same_version: [bool; 4],
    pub pin_deleg_len: bool,
}

fn reissue_state(case: &ReissueCase, second: bool) -> forge::Built {
    let mut sp = Simple::basic(case.consistent);
    let bump = |i: usize| if second && !case.same_version[i] { 1 } else { 0 };
    let tag = if second { "second" } else { "first" };
    sp.ts_version = if second { 2 } else { 1 };
    sp.snap_version = 11 + bump(0);
    sp.targets_version = 21 + bump(1);
    sp.targets = vec![(format!("top-{tag}.txt"), tag.as_bytes().to_vec())];
    let mut d2 = DelegNode::new("d2", 5, PathSpec::Paths(vec!["d/e/*".into()]));
    d2.version = 41 + bump(3);
    d2.targets = vec![(format!("d/e/{tag}.txt"), tag.as_bytes().to_vec())];
    let mut d1 = DelegNode::new("d1", 4, PathSpec::Paths(vec!["d/*".into()]));
    d1.version = 31 + bump(2);
    d1.targets = vec![(format!("d/{tag}.txt"), tag.as_bytes().to_vec())];
    d1.children = vec![d2];
    sp.delegs = vec![d1];
    sp.pin_deleg_len = case.pin_deleg_len;
    sp.snapshot_extra = vec![("issue".into(), json!(tag))];
    sp.build()
}

pub fn reissue_prop(case: &ReissueCase) -> Outcome {
    let mut o = Outcome::new();
    crate::rt::set_now(crate::rt::t0());
    o.shape = format!("{:?}", case);
    o.nontrivial = case.same_version.iter().any(|x| *x);
    let store = tempfile::tempdir().expect("tempdir");
    let opts = LoadOpts { datastore: Some(store.path().to_path_buf()), ..Default::default() };
    let a = reissue_state(case, false);
    let b = reissue_state(case, true);
    let mem = MemTransport::new();
    a.install_meta(&mem);
    if let Err(e) = forge::load(&mem, &a.shipped(1), &opts) {
        o.fail(format!("first cycle failed: {e}"));
        return o;
    }
    let mem2 = MemTransport::new();
    b.install_meta(&mem2);
    let repo = match forge::load(&mem2, &b.shipped(1), &opts) {
        Ok(r) => r,
        Err(e) => {
            o.fail(format!("second cycle (a consistent, correctly signed, newer repository; same_version = {:?}) failed: {e}", case.same_version));
            return o;
        }
    };
    // what the client trusts now must be what the second cycle's pinning documents describe
    let names = |t: &tough::schema::Targets| -> Vec<String> {
        let mut v: Vec<String> = t.targets.keys().map(|n| n.raw().to_string()).collect();
        v.sort();
        v
    };
    let top = &repo.targets().signed;
    let checks: Vec<(&str, Vec<String>, Vec<String>)> = vec![
        ("targets", names(top), vec!["top-second.txt".to_string()]),
        ("d1", top.delegated_targets("d1").map(|s| names(&s.signed)).unwrap_or_default(), vec!["d/second.txt".to_string()]),
        ("d2", top.delegated_targets("d2").map(|s| names(&s.signed)).unwrap_or_default(), vec!["d/e/second.txt".to_string()]),
    ];
    for (role, got, want) in checks {
        if got != want {
            o.fail(format!(
                "after the second cycle the client trusts a {role} document listing {got:?}; the snapshot it trusts pins the document listing {want:?} (re-issued under the same version: {:?})",
                case.same_version
            ));
            return o;
        }
    }
    if repo.snapshot().signed._extra.get("issue") != Some(&json!("second")) {
        o.fail("after the second cycle the client trusts the first cycle's snapshot".to_string());
        return o;
    }
    // the trusted targets document has the digest the trusted snapshot lists
    let served = b.meta.iter().find(|(f, _)| f.ends_with("targets.json")).map(|(_, bytes)| sha256_hex(bytes)).unwrap_or_default();
    let listed = repo.snapshot().signed.meta.get("targets.json").and_then(|m| m.hashes.as_ref()).map(|h| hex::encode(&h.sha256)).unwrap_or_default();
    if served != listed {
        o.fail(format!("snapshot lists digest {listed} for targets.json, the file of that state has {served}"));
    }
    o.label("reissue-loaded");
    o
}

fn reissue_cases() -> Vec<ReissueCase> {
    let mut v = Vec::new();
    for consistent in [false, true] {
        for m in 0..16u8 {
            for pin in [false, true] {
                v.push(ReissueCase { consistent, same_version: [m & 1 != 0, m & 2 != 0, m & 4 != 0, m & 8 != 0], pin_deleg_len: pin });
            }
        }
    }
    v
}

fn variant() -> impl Strategy<Value = Variant> {
    prop_oneof![6 => Just(Variant::Same), 1 => Just(Variant::Pretty), 1 => Just(Variant::ExtraSig), 1 => Just(Variant::TrailingNewline), 2 => Just(Variant::Reordered)]
}

fn from_strategy() -> impl Strategy<Value = [u8; 5]> {
    // mostly one state with one or two deviations, so that consistent sets and single mismatches
    // are both common
    (0u8..3, prop::collection::vec((0usize..5, 0u8..3), 0..3)).prop_map(|(base, devs)| {
        let mut f = [base; 5];
        for (i, s) in devs {
            f[i] = s;
        }
        f
    })
}

fn case_strategy() -> impl Strategy<Value = Case> {
    (
        any::<bool>(),
        from_strategy(),
        [variant(), variant(), variant(), variant()],
        (any::<bool>(), any::<bool>(), any::<bool>(), any::<bool>(), any::<bool>()),
        prop::bool::weighted(0.07),
    )
        .prop_map(|(consistent, from, variant, (a, b, c, d, e), drop)| Case {
            consistent,
            from,
            variant,
            pin_snap_hash: a,
            pin_snap_len: b,
            pin_targets_hash: c,
            pin_targets_len: d,
            pin_deleg_len: e,
            drop_d2_listing: drop,
        })
}

/// every serving plan over 3 states for 5 roles (243) x both snapshot modes, no pins besides the
/// version, no byte variants
fn grid() -> Vec<Case> {
    let mut v = Vec::new();
    for consistent in [false, true] {
        for x in 0..243u32 {
            let from = [(x % 3) as u8, (x / 3 % 3) as u8, (x / 9 % 3) as u8, (x / 27 % 3) as u8, (x / 81 % 3) as u8];
            v.push(Case {
                consistent,
                from,
                variant: [Variant::Same; 4],
                pin_snap_hash: false,
                pin_snap_len: false,
                pin_targets_hash: false,
                pin_targets_len: false,
                pin_deleg_len: false,
                drop_d2_listing: false,
            });
        }
    }
    v
}

pub fn check(ctx: &Ctx) -> Vec<PartReport> {
    let mut out = Vec::new();
    out.push(run_part(
        ctx,
        PartSpec {
            name: "plans",
            rule: "EXHAUSTIVE: every serving plan that picks timestamp, snapshot, targets, depth-1 and depth-2 delegated role from 3 repository states independently (243 plans) x both consistent-snapshot settings, version-only pins (digests and lengths absent, which the editor cannot produce). Non-trivial: the plan mixes states; distinct = plan",
            mode: Mode::Enumerate { cases: grid(), complete: true },
            prop: Box::new(prop),
            require: vec![],
        },
    ));
    let n = ctx.cases(30_000, 400_000);
    out.push(run_part(
        ctx,
        PartSpec {
            name: "plans-pins-variants",
            rule: "random serving plans (one base state with 0..2 deviating roles), digest and length pins independently present/absent at timestamp->snapshot and snapshot->targets, length pin for delegated roles present/absent, byte variants of each served file (re-serialised / extra signature entry by an unknown key / trailing newline) that keep the signatures valid, 7% with the depth-2 role missing from the snapshot. Oracle: Ok iff versions equal the pinned ones, pinned digests equal the SHA-256 of the bytes served, bytes served do not exceed pinned lengths, every delegated role listed; under consistent snapshots the version-prefixed names of the pinning documents are the ones requested. Non-trivial: plan mixes >=2 states or uses a byte variant; distinct = whole case",
            mode: Mode::Random { cases: n, strategy: Box::new(|| bx(case_strategy())) },
            prop: Box::new(prop),
            require: vec![
                ("expect-ok", n as u64 / 20),
                ("reject:VersionMismatch", n as u64 / 10),
                ("reject:HashMismatch", n as u64 / 40),
                ("reject:MaxSize", n as u64 / 100),
                ("reject:RoleNotInMeta", n as u64 / 200),
                ("variant-accepted-without-hash-pin", n as u64 / 100),
            ],
        },
    ));
    out.push(run_part(
        ctx,
        PartSpec {
            name: "reissued",
            rule: "EXHAUSTIVE: two cycles on one datastore; the second repository state re-issues every subset of {snapshot, targets, depth-1 role, depth-2 role} with new content under an UNCHANGED version number (the others get the next version), everything consistent and correctly signed with digest and length pins; both snapshot modes, delegated length pins on/off (64 cases). Oracle: the second cycle succeeds and what the client then trusts (listings of targets and both delegated roles, the snapshot) is what the documents pinned in that cycle contain. Non-trivial: some role keeps its version; distinct = case",
            mode: Mode::Enumerate { cases: reissue_cases(), complete: true },
            prop: Box::new(reissue_prop),
            require: vec![("reissue-loaded", 32)],
        },
    ));
    out
}

pub fn replay(_ctx: &Ctx, part: &str, case: &Value) -> Outcome {
    if part == "reissued" {
        return crate::engine::replay_case::<ReissueCase>(case, reissue_prop);
    }
    crate::engine::replay_case::<Case>(case, prop)
}
