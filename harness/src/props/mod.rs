//! One module per property. Each exposes `info()`, `check(ctx) -> Vec<PartReport>`,
//! `replay(ctx, part, case)` and optionally `probes(ctx)` (directed probes for listed known
//! findings).

use crate::engine::{Ctx, Outcome, PartReport};
use serde::Serialize;
use serde_json::Value;

pub mod edit;

pub struct Info {
    pub level: &'static str,
    pub assumptions: Vec<&'static str>,
}

#[derive(Debug, Clone, Serialize)]
pub struct Probe {
    pub key: String,
    pub what: String,
    pub reproduced: bool,
    pub detail: String,
}

macro_rules! properties {
    ($( $id:literal => $m:ident ),* $(,)?) => {
        $( pub mod $m; )*
        pub const ALL: &[&str] = &[$($id),*];
        pub fn info(id: &str) -> Option<Info> {
            match id { $( $id => Some($m::info()), )* _ => None }
        }
        pub fn check(ctx: &Ctx, id: &str) -> Vec<PartReport> {
            match id { $( $id => $m::check(ctx), )* _ => vec![] }
        }
        pub fn replay(ctx: &Ctx, id: &str, part: &str, case: &Value) -> Outcome {
            match id {
                $( $id => $m::replay(ctx, part, case), )*
                _ => { let mut o = Outcome::new(); o.inconclusive = 1; o }
            }
        }
    };
}

properties! {
    "C01" => c01,
    "C02" => c02,
    "C03" => c03,
    "C04" => c04,
    "C05" => c05,
    "C06" => c06,
    "C07" => c07,
    "C08" => c08,
    "C09" => c09,
    "C10" => c10,
    "C11" => c11,
    "C12" => c12,
    "C13" => c13,
    "C14" => c14,
    "C15" => c15,
    "C16" => c16,
    "C17" => c17,
    "C18" => c18,
    "C19" => c19,
    "C20" => c20,
}

pub fn probes(ctx: &Ctx, id: &str) -> Vec<Probe> {
    match id {
        "C03" => c03::probes(ctx),
        "C09" => c09::probes(ctx),
        "C10" => c10::probes(ctx),
        "C12" => c12::probes(ctx),
        "C15" => c15::probes(ctx),
        "C17" => c17::probes(ctx),
        "C18" => c18::probes(ctx),
        "C20" => c20::probes(ctx),
        _ => vec![],
    }
}

pub fn child_main(args: &[String]) -> i32 {
    match args.first().map(|s| s.as_str()) {
        Some("load") => c15::child_load(&args[1..]),
        _ => 2,
    }
}
