//! One module per property. Each exposes `check(ctx) -> Vec<PartReport>`, `replay(ctx, part, case)`
//! and optionally `probes(ctx)` (directed probes for listed known findings).

use crate::engine::{Ctx, Outcome, PartReport};
use serde::Serialize;
use serde_json::Value;

pub mod c11;

pub const ALL: &[&str] = &["C11"];

pub struct Info {
    pub level: &'static str,
    pub assumptions: Vec<&'static str>,
}

#[derive(Debug, Clone, Serialize)]
pub struct Probe {
    pub key: String,
    pub what: String,
    pub reproduced: bool,
    pub detail: String,
}

pub fn info(id: &str) -> Option<Info> {
    Some(match id {
        "C11" => c11::info(),
        _ => return None,
    })
}

pub fn check(ctx: &Ctx, id: &str) -> Vec<PartReport> {
    match id {
        "C11" => c11::check(ctx),
        _ => vec![],
    }
}

pub fn probes(ctx: &Ctx, id: &str) -> Vec<Probe> {
    let _ = ctx;
    match id {
        _ => vec![],
    }
}

pub fn replay(ctx: &Ctx, id: &str, part: &str, case: &Value) -> Outcome {
    match id {
        "C11" => c11::replay(ctx, part, case),
        _ => {
            let mut o = Outcome::new();
            o.inconclusive = 1;
            o
        }
    }
}

pub fn child_main(_args: &[String]) -> i32 {
    2
}
