//! C10 — whatever the repository editor signs and writes, the client loads back unchanged.

use super::edit::{self, Built, Model, Program};
use crate::cjson::sha256_hex;
use crate::engine::{bx, run_part, Ctx, Mode, Outcome, PartReport, PartSpec};
use crate::keys::key;
use crate::transport::DecodingDirTransport;
use proptest::prelude::*;
use serde::{Deserialize, Serialize};
use serde_json::Value;
use std::num::NonZeroU64;
use tough::editor::targets::TargetsEditor;
use tough::editor::RepositoryEditor;
use tough::{IntoVec, Repository, TargetName};

pub const KF_URL_NAMES: &str = "url-rewritten-target-names-unfetchable";
pub const KF_THRESHOLD_ABOVE_KEYS: &str = "delegate-role-threshold-above-keys";

pub fn info() -> super::Info {
    super::Info {
        level: "exploration",
        assumptions: vec![
            "role names are unique across the tree and differ from the top-level names (TUF precondition that tough's own lookups rely on); targets of a delegated role live below a prefix covered by the paths of every delegation above it, except for a deliberate minority",
            "an Err from any editor operation removes that operation from the model and is not a failure; only a signing step that reports success obliges the client to load the result",
            "the harness creates parent directories in the targets directory before asking the editor to copy/link a target whose name has sub-directories",
        ],
    }
}

pub fn load(b: &Built, decoding: bool) -> Result<Repository, tough::error::Error> {
    crate::rt::set_now(crate::rt::t0());
    let root = std::fs::read(&b.root_path).unwrap();
    let l = tough::RepositoryLoader::new(&root, url::Url::from_directory_path(&b.metadata_dir).unwrap(), url::Url::from_directory_path(&b.targets_dir).unwrap());
    let l = if decoding { l.transport(DecodingDirTransport { root: b.work.path().to_path_buf() }) } else { l.transport(tough::FilesystemTransport) };
    crate::rt::block_on(l.load())
}

fn find_role<'a>(t: &'a tough::schema::Targets, name: &str) -> Option<&'a tough::schema::Targets> {
    if name == "targets" {
        return Some(t);
    }
    t.delegated_targets(name).ok().map(|s| &s.signed)
}

/// compares the loaded repository with the model; returns the first difference
pub fn compare(repo: &Repository, model: &Model) -> Option<String> {
    if repo.timestamp().signed.version.get() != model.timestamp.0 || repo.timestamp().signed.expires != model.timestamp.1 {
        return Some(format!("timestamp version/expiry {:?} {}, put in: {:?}", repo.timestamp().signed.version, repo.timestamp().signed.expires, model.timestamp));
    }
    if repo.snapshot().signed.version.get() != model.snapshot.0 || repo.snapshot().signed.expires != model.snapshot.1 {
        return Some(format!("snapshot version/expiry {:?} {}, put in: {:?}", repo.snapshot().signed.version, repo.snapshot().signed.expires, model.snapshot));
    }
    let top = &repo.targets().signed;
    let loaded_names: Vec<String> = std::iter::once("targets".to_string()).chain(top.role_names().into_iter().cloned()).collect();
    let mut want: Vec<&String> = model.roles.keys().collect();
    let mut got: Vec<&String> = loaded_names.iter().collect();
    want.sort();
    got.sort();
    if want != got {
        return Some(format!("roles loaded {got:?}, roles put in {want:?}"));
    }
    for (name, mr) in &model.roles {
        let Some(t) = find_role(top, name) else { return Some(format!("role {name} not found in the loaded repository")) };
        if Some(t.version.get()) != mr.version || Some(t.expires) != mr.expires {
            return Some(format!("role {name}: version/expiry {} {}, put in {:?} {:?}", t.version, t.expires, mr.version, mr.expires));
        }
        // targets
        let mut lt: Vec<(String, u64, String, bool)> = t.targets.iter().map(|(n, e)| (n.raw().to_string(), e.length, hex::encode(&e.hashes.sha256), !e.custom.is_empty())).collect();
        lt.sort();
        let mut mt: Vec<(String, u64, String, bool)> = mr.targets.iter().map(|(n, e)| (n.clone(), e.len, e.sha256.clone(), e.custom)).collect();
        mt.sort();
        if lt != mt {
            return Some(format!("role {name}: targets loaded {lt:?}, put in {mt:?}"));
        }
        for (n, e) in &t.targets {
            if !e.custom.is_empty() {
                let want = serde_json::json!({"seed": e.custom["note"]["seed"], "list": [1, 2, 3]});
                if e.custom.get("note") != Some(&want) || e.custom.len() != 1 {
                    return Some(format!("role {name}: custom data of {:?} changed: {:?}", n.raw(), e.custom));
                }
            }
        }
        // delegations, in order
        let ld: Vec<(String, Vec<String>, u64, Value)> = t
            .delegations
            .as_ref()
            .map(|d| {
                d.roles
                    .iter()
                    .map(|r| {
                        let mut ids: Vec<String> = r.keyids.iter().map(|k| hex::encode(k)).collect();
                        ids.sort();
                        (r.name.clone(), ids, r.threshold.get(), edit::describe_paths(&r.paths))
                    })
                    .collect()
            })
            .unwrap_or_default();
        let md: Vec<(String, Vec<String>, u64, Value)> = mr
            .delegs
            .iter()
            .map(|d| {
                let mut ids: Vec<String> = d.keys.iter().map(|k| key(*k).keyid.clone()).collect();
                ids.sort();
                (d.child.clone(), ids, d.threshold, edit::describe_paths(&d.paths))
            })
            .collect();
        if ld != md {
            return Some(format!("role {name}: delegations loaded {ld:?}, put in {md:?}"));
        }
        if let Some(d) = &t.delegations {
            for r in &d.roles {
                for id in &r.keyids {
                    if !d.keys.contains_key(id) {
                        return Some(format!("role {name}: delegation to {} lists key {} which is not in the key table", r.name, hex::encode(id)));
                    }
                }
            }
        }
    }
    None
}

/// the written snapshot and timestamp describe the written files exactly
pub fn check_meta_files(b: &Built, repo: &Repository) -> Option<String> {
    let files = edit::list_files(&b.metadata_dir);
    let consistent = b.model.consistent;
    let snap = &repo.snapshot().signed;
    let ts = &repo.timestamp().signed;
    let mut checks: Vec<(String, String, &tough::schema::Metafile)> = Vec::new();
    if let Some(m) = ts.meta.get("snapshot.json") {
        let f = if consistent { format!("{}.snapshot.json", snap.version) } else { "snapshot.json".into() };
        checks.push(("timestamp -> snapshot".into(), f, m));
    } else {
        return Some("timestamp has no snapshot.json entry".into());
    }
    for (name, m) in &snap.meta {
        let stem = name.strip_suffix(".json").unwrap_or(name);
        let enc = crate::forge::enc_name(stem);
        let f = if consistent { format!("{}.{enc}.json", m.version) } else { format!("{enc}.json") };
        checks.push((format!("snapshot -> {name}"), f, m));
    }
    // every role has an entry
    for r in b.model.roles.keys() {
        if !snap.meta.contains_key(&format!("{r}.json")) {
            return Some(format!("snapshot has no entry for role {r}"));
        }
    }
    for (what, f, m) in checks {
        let Some(bytes) = files.get(&f) else { return Some(format!("{what}: file {f} was not written (files: {:?})", files.keys().collect::<Vec<_>>())) };
        let doc: Value = match serde_json::from_slice(bytes) {
            Ok(d) => d,
            Err(e) => return Some(format!("{f} is not JSON: {e}")),
        };
        if doc["signed"]["version"].as_u64() != Some(m.version.get()) {
            return Some(format!("{what}: entry says version {}, file {f} has {}", m.version, doc["signed"]["version"]));
        }
        match m.length {
            Some(l) if l == bytes.len() as u64 => {}
            other => return Some(format!("{what}: entry says length {other:?}, file {f} has {} bytes", bytes.len())),
        }
        match &m.hashes {
            Some(h) if hex::encode(&h.sha256) == sha256_hex(bytes) => {}
            other => return Some(format!("{what}: entry digest {:?} differs from SHA-256 of {f} ({})", other.as_ref().map(|h| hex::encode(&h.sha256)), sha256_hex(bytes))),
        }
    }
    None
}

pub struct ReadBack {
    pub known_hits: u64,
    pub failure: Option<String>,
    pub rewritten_seen: bool,
}

/// every published target downloads and verifies (FilesystemTransport; names the url crate
/// rewrites: the listed known finding, checked through the decoding transport instead)
pub fn read_back(b: &Built, repo_fs: &Repository, known_url: bool) -> ReadBack {
    let mut out = ReadBack { known_hits: 0, failure: None, rewritten_seen: false };
    let repo_dec = load(b, true).ok();
    for (rname, role) in &b.model.roles {
        for (tname, t) in &role.targets {
            let tn = TargetName::new(tname.clone()).unwrap();
            let read = |repo: &Repository| -> Result<Option<Vec<u8>>, String> {
                crate::rt::block_on(async {
                    match repo.read_target(&tn).await {
                        Ok(Some(s)) => s.into_vec().await.map(Some).map_err(|e| e.to_string()),
                        Ok(None) => Ok(None),
                        Err(e) => Err(e.to_string()),
                    }
                })
            };
            let rewritten = edit::url_rewrites(tn.resolved());
            // which entry is the one the client must use: the first in pre-order. The model's
            // roles may list one name twice (deliberate 'outside' placements); then only require
            // that what is delivered is one of the listed contents.
            let same_name: Vec<&edit::MTarget> = b.model.roles.values().filter_map(|r| r.targets.get(tname)).collect();
            let got = read(repo_fs);
            let ok = |v: &Result<Option<Vec<u8>>, String>| matches!(v, Ok(Some(bytes)) if same_name.iter().any(|m| &m.content == bytes));
            if ok(&got) {
                continue;
            }
            if same_name.len() > 1 {
                // two roles list this name with different content: only one file can be published
                // under it; the client rightly refuses the other's bytes
                continue;
            }
            if rewritten {
                out.rewritten_seen = true;
                let not_found = matches!(&got, Err(e) if e.contains("ile not found") || e.contains("No such file"));
                if known_url && not_found {
                    out.known_hits += 1;
                    // through a transport that decodes the request path like a web server the
                    // target must be there, unless the name has a query/fragment/backslash
                    let special = tname.contains('?') || tname.contains('#') || tname.contains('\\');
                    if !special {
                        if let Some(rd) = &repo_dec {
                            let g2 = read(rd);
                            if !ok(&g2) {
                                out.failure = Some(format!("target {tname:?} of role {rname} (length {}) is not downloadable even through a path-decoding transport: {g2:?}", t.len));
                                return out;
                            }
                        }
                    }
                    continue;
                }
                out.failure = Some(format!(
                    "published target {tname:?} of role {rname} cannot be downloaded from the written repository: {:?} [{KF_URL_NAMES}]",
                    got.as_ref().map(|o| o.as_ref().map(|b| b.len()))
                ));
                return out;
            }
            out.failure = Some(format!("published target {tname:?} of role {rname} (length {}) does not download/verify: {:?}", t.len, got.map(|o| o.map(|b| b.len()))));
            return out;
        }
    }
    out
}

// ---------------------------------------------------------------------------------------------
// cross-party flow

#[derive(Clone, Copy, Debug, Serialize, Deserialize, PartialEq, Eq)]
pub enum Incoming {
    Genuine,
    UnderSigned,
    WrongKeys,
    Older,
    SameKeyTwice,
}

#[derive(Clone, Debug, Serialize, Deserialize, PartialEq, Eq)]
pub struct Case {
    pub program: Program,
    /// after the round trip: the holder of a delegated role edits and signs it, the owner
    /// incorporates it
    pub cross: Option<(u16, Incoming, u32)>,
}

pub fn prop_with(case: &Case, known_url: bool, known_thr: bool) -> Outcome {
    let mut o = Outcome::new();
    o.shape = format!("{:?}", case);
    let b = match edit::run_program(&case.program) {
        Ok(Some(b)) => b,
        Ok(None) => return o,
        Err(e) => {
            o.inconclusive += 1;
            o.label(format!("HARNESS: {e}"));
            return o;
        }
    };
    for l in &b.labels {
        o.label(l.clone());
    }
    if !b.editor_errors.is_empty() {
        o.label("editor-refused-an-operation");
    }
    if !b.labels.iter().any(|l| l == "sign-ok") {
        return o;
    }
    let published = !b.labels.iter().any(|l| l == "publish-refused");
    let m = &b.model;
    let n_deleg = m.roles.len() - 1;
    let big_deleg = {
        let files = edit::list_files(&b.metadata_dir);
        let tlen = files.iter().find(|(f, _)| f.ends_with("targets.json")).map(|(_, b)| b.len()).unwrap_or(0);
        files.iter().any(|(f, bts)| f.contains("role-") && bts.len() > tlen)
    };
    if big_deleg {
        o.label("delegated-file-larger-than-targets-json");
    }
    o.nontrivial = n_deleg >= 1 || m.roles.values().any(|r| r.threshold >= 2) || case.cross.is_some();
    if n_deleg >= 1 {
        o.label("has-delegations");
    }
    if n_deleg >= 3 {
        o.label("delegations>=3");
    }
    let above = b.labels.iter().any(|l| l == "threshold-above-keys-accepted");
    // ---- the client must load what the editor signed
    let repo = match load(&b, false) {
        Ok(r) => r,
        Err(e) => {
            if above {
                if known_thr {
                    o.known_hits += 1;
                    o.label("known:threshold-above-keys");
                    return o;
                }
                o.fail(format!("delegate_role accepted a threshold above the number of keys, sign() reported success, and the written repository does not load: {e} [{KF_THRESHOLD_ABOVE_KEYS}]"));
                return o;
            }
            o.fail(format!("the editor signed and wrote the repository, but the client refuses it: {e}; editor errors along the way: {:?}", b.editor_errors));
            return o;
        }
    };
    o.label("loaded");
    if let Some(d) = compare(&repo, m) {
        o.fail(format!("loaded repository differs from what was put in: {d}"));
        return o;
    }
    if let Some(d) = check_meta_files(&b, &repo) {
        o.fail(format!("written snapshot/timestamp do not describe the written files: {d}"));
        return o;
    }
    if !published {
        // publishing stopped at a target the editor would not copy/link (e.g. two roles list one
        // name with different content); the metadata checks above still apply
        return o;
    }
    let rb = read_back(&b, &repo, known_url);
    o.known_hits += rb.known_hits;
    if rb.rewritten_seen {
        o.label("url-rewritten-name");
    }
    if let Some(f) = rb.failure {
        o.fail(f);
        return o;
    }
    // ---- cross-party flow
    let Some((pick, kind, bump)) = &case.cross else { return o };
    let delegated: Vec<&String> = m.roles.keys().filter(|r| *r != "targets").collect();
    if delegated.is_empty() {
        return o;
    }
    let role = delegated[crate::engine::pick_idx(*pick, delegated.len())].clone();
    let mr = m.roles[&role].clone();
    let cur_version = mr.version.unwrap_or(1);
    let new_version = match kind {
        Incoming::Older => cur_version.saturating_sub(1 + *bump as u64 % 3),
        _ => cur_version + (*bump as u64 % 3),
    };
    if new_version == 0 {
        return o;
    }
    o.label(format!("cross:{kind:?}"));
    // holder: edit the role from the loaded repository, sign with its (or other) keys, write
    let incoming_dir = b.work.path().join("incoming");
    let signer_keys: Vec<usize> = match kind {
        Incoming::Genuine | Incoming::Older => mr.keys.clone(),
        Incoming::UnderSigned => mr.keys.iter().take((mr.threshold as usize).saturating_sub(1)).copied().collect(),
        Incoming::WrongKeys => vec![0, 1],
        Incoming::SameKeyTwice => mr.keys.iter().take(1).copied().collect(),
    };
    // the holder's own edit: nothing, a new target below the role's prefix, or one outside of it
    let holder_add: Option<(String, Vec<u8>)> = if matches!(kind, Incoming::Genuine | Incoming::Older) {
        match (*bump >> 8) % 4 {
            0 => None,
            2 => Some(("outside-of-every-prefix/cross.txt".to_string(), b"added by the role holder, outside".to_vec())),
            _ => Some((format!("{}/cross-added.txt", mr.prefix), b"added by the role holder".to_vec())),
        }
    } else {
        None
    };
    if let Some((n, _)) = &holder_add {
        o.label(if n.starts_with("outside") { "cross:holder-adds-outside-prefix" } else { "cross:holder-adds-target" });
    }
    let repo2 = match load(&b, false) {
        Ok(r) => r,
        Err(e) => {
            o.fail(format!("second load of the same repository failed: {e}"));
            return o;
        }
    };
    let holder: Result<(), String> = crate::rt::block_on(async {
        let mut te = TargetsEditor::from_repo(repo2, &role).map_err(|e| format!("TargetsEditor::from_repo: {e}"))?;
        te.version(NonZeroU64::new(new_version).unwrap()).expires(edit::expiry(77));
        if let Some((name, data)) = &holder_add {
            let f = b.input_dir.join("cross-holder-input");
            std::fs::write(&f, data).unwrap();
            let t = tough::schema::Target::from_path(&f).await.map_err(|e| format!("Target::from_path: {e}"))?;
            te.add_target(name.as_str(), t).map_err(|e| format!("holder add_target: {e}"))?;
        }
        let signed = if matches!(kind, Incoming::Genuine | Incoming::Older) {
            te.sign(&edit::key_sources(&signer_keys)).await.map_err(|e| format!("holder sign: {e}"))?
        } else {
            // the holder's editor refuses to under-sign; forge the incoming file instead
            return Err("forge".into());
        };
        signed.write(&incoming_dir, false).await.map_err(|e| format!("holder write: {e}"))?;
        Ok(())
    });
    let meets = match kind {
        Incoming::Genuine => true,
        Incoming::Older => true,
        Incoming::UnderSigned | Incoming::WrongKeys => false,
        Incoming::SameKeyTwice => mr.threshold <= 1,
    };
    match holder {
        Ok(()) => {}
        Err(e) if e == "forge" => {
            // same content as the holder would produce, signatures chosen by the case
            let files = edit::list_files(&b.metadata_dir);
            let fname = if m.consistent { format!("{}.{role}.json", cur_version) } else { format!("{role}.json") };
            let Some(orig) = files.get(&fname) else { return o };
            let mut doc: Value = serde_json::from_slice(orig).unwrap();
            doc["signed"]["version"] = serde_json::json!(new_version);
            let canon = crate::cjson::canon(&doc["signed"]);
            let Ok(canon) = canon else { return o };
            let mut sigs = Vec::new();
            for k in &signer_keys {
                sigs.push(crate::forge::sig_entry(key(*k), &canon));
            }
            if *kind == Incoming::SameKeyTwice {
                sigs.push(crate::forge::sig_entry(key(signer_keys[0]), &canon));
            }
            doc["signatures"] = Value::Array(sigs);
            std::fs::create_dir_all(&incoming_dir).unwrap();
            std::fs::write(incoming_dir.join(format!("{role}.json")), serde_json::to_vec_pretty(&doc).unwrap()).unwrap();
        }
        Err(e) => {
            o.label("holder-refused");
            let _ = e;
            return o;
        }
    }
    // owner: incorporate
    let url = url::Url::from_directory_path(&incoming_dir).unwrap().to_string();
    let repo3 = match load(&b, false) {
        Ok(r) => r,
        Err(e) => {
            o.fail(format!("third load of the same repository failed: {e}"));
            return o;
        }
    };
    let meta2 = b.work.path().join("metadata-after-cross");
    // Ok(Some(..)): incorporated, owner signed and wrote; Ok(None): incorporated, the owner's sign() or write() refused
    let mut after: Option<Result<(), String>> = None;
    let res: Result<(), String> = crate::rt::block_on(async {
        let mut ed = RepositoryEditor::from_repo(&b.root_path, repo3).await.map_err(|e| format!("from_repo: {e}"))?;
        ed.update_delegated_targets(&role, &url).await.map_err(|e| format!("update_delegated_targets: {e}"))?;
        // the owner publishes the result
        let Some(rs) = m.root.as_ref() else { return Ok(()) };
        ed.snapshot_version(NonZeroU64::new(m.snapshot.0 + 1).unwrap())
            .snapshot_expires(edit::expiry(80))
            .timestamp_version(NonZeroU64::new(m.timestamp.0 + 1).unwrap())
            .timestamp_expires(edit::expiry(81));
        let mut ks: Vec<usize> = Vec::new();
        for rk in [&rs.timestamp, &rs.snapshot, &rs.targets] {
            ks.extend(rk.keys.iter().copied());
        }
        after = Some(match ed.sign(&edit::key_sources(&ks)).await {
            Err(e) => Err(format!("sign: {e}")),
            Ok(signed) => signed.write(&meta2).await.map_err(|e| format!("write: {e}")),
        });
        Ok(())
    });
    let should_accept = meets && new_version >= cur_version;
    match (&res, should_accept) {
        (Ok(()), false) => {
            o.fail(format!(
                "update_delegated_targets incorporated metadata for {role} that {}: incoming version {new_version} (current {cur_version}), signed by {} of the role's {} key(s) (threshold {}), kind {kind:?}",
                if !meets { "does not meet the delegating role's threshold with distinct keys" } else { "lowers the role's version" },
                signer_keys.iter().filter(|k| mr.keys.contains(k)).count(),
                mr.keys.len(),
                mr.threshold
            ));
        }
        (Err(e), true) => {
            if e.starts_with("update_delegated_targets") {
                o.fail(format!("genuine metadata of the role holder (version {new_version} >= {cur_version}, signed by all its keys) was refused: {e}"));
            }
        }
        (Ok(()), true) => {
            o.label("cross-incorporated");
            match after {
                None => {}
                Some(Err(e)) => {
                    o.label("cross:owner-sign-refused");
                    let _ = e;
                }
                Some(Ok(())) => {
                    // the editor reported success: the client must load the result and see the
                    // holder's role as the holder signed it, everything else as before
                    o.label("cross:owner-signed");
                    let mut m2 = m.clone();
                    m2.snapshot = (m.snapshot.0 + 1, edit::expiry(80));
                    m2.timestamp = (m.timestamp.0 + 1, edit::expiry(81));
                    {
                        let r = m2.roles.get_mut(&role).unwrap();
                        r.version = Some(new_version);
                        if matches!(kind, Incoming::Genuine | Incoming::Older) {
                            r.expires = Some(edit::expiry(77));
                        }
                        if let Some((n, data)) = &holder_add {
                            r.targets.insert(n.clone(), edit::MTarget { len: data.len() as u64, sha256: crate::cjson::sha256_hex(data), custom: false, content: data.clone() });
                        }
                    }
                    crate::rt::set_now(crate::rt::t0());
                    let root = std::fs::read(&b.root_path).unwrap();
                    let l = tough::RepositoryLoader::new(&root, url::Url::from_directory_path(&meta2).unwrap(), url::Url::from_directory_path(&b.targets_dir).unwrap()).transport(tough::FilesystemTransport);
                    match crate::rt::block_on(l.load()) {
                        Err(e) => {
                            o.fail(format!(
                                "the owner incorporated the holder's metadata for {role} (version {new_version}, holder added {:?}), sign() and write() reported success, but the client refuses the written repository: {e}",
                                holder_add.as_ref().map(|x| &x.0)
                            ));
                        }
                        Ok(repo4) => {
                            if let Some(d) = compare(&repo4, &m2) {
                                o.fail(format!("after the cross-party update the loaded repository differs from what was put in: {d}"));
                            }
                        }
                    }
                }
            }
        }
        (Err(_), false) => o.label("cross-refused"),
    }
    o
}

fn case_strategy() -> impl Strategy<Value = Case> {
    (
        edit::program(25),
        prop::option::weighted(
            0.5,
            (
                any::<u16>(),
                prop::sample::select(vec![Incoming::Genuine, Incoming::Genuine, Incoming::UnderSigned, Incoming::WrongKeys, Incoming::Older, Incoming::SameKeyTwice]),
                any::<u32>(),
            ),
        ),
    )
        .prop_map(|(program, cross)| Case { program, cross })
}

pub fn check(ctx: &Ctx) -> Vec<PartReport> {
    let ku = ctx.known.is_known("C10", KF_URL_NAMES);
    let kt = ctx.known.is_known("C10", KF_THRESHOLD_ABOVE_KEYS);
    let n = ctx.cases(8_000, 60_000);
    vec![run_part(
        ctx,
        PartSpec {
            name: "programs",
            rule: "random editing programs of up to 25 operations against the real RepositoryEditor: add target (14-name vocabulary with spaces, non-ASCII, sub-directories, resolvable segments, URL metacharacters; sizes 0..32 KiB; custom data), remove, clear, set versions/expiries, delegate_role below the role being edited (1..3 keys of mixed algorithms, threshold 1..3, prefix/star/pattern/hash-prefix paths, depth <=3), switch the role being edited (sign_targets_editor with all or too few keys, change_delegated_targets); root roles with 1..3 keys and thresholds 1..2; final sign with all keys or without one role's keys; write; publish by copy or symlink; both snapshot modes; half of the cases continue with the cross-party flow (holder edits a delegated role from the loaded repository and signs; or a forged incoming file that is under-signed / signed by foreign keys / by one key twice / older; owner calls update_delegated_targets; the holder may add a target below or outside the role's prefix; after an incorporation the owner bumps snapshot/timestamp, signs and writes, and if that reports success the client must load the result and see the holder's role as signed by the holder). Oracle: model of the accepted operations; sign Ok => loads, every role's targets, delegations (order, paths, thresholds, key ids), versions and expiries equal the model, snapshot/timestamp entries equal (version, length, SHA-256) of the files on disk, every published target reads back byte-identical; incoming metadata is incorporated iff it meets the threshold with distinct keys and does not lower the version. Non-trivial: >=1 delegated role, a threshold >=2, or a cross-party step; distinct = whole case",
            mode: Mode::Random { cases: n, strategy: Box::new(|| bx(case_strategy())) },
            prop: Box::new(move |c: &Case| prop_with(c, ku, kt)),
            require: vec![
                ("loaded", n as u64 / 3),
                ("has-delegations", n as u64 / 4),
                ("delegations>=3", n as u64 / 20),
                ("edited-delegated-role", n as u64 / 10),
                ("delegated-threshold>=2", n as u64 / 20),
                ("sign-refused", n as u64 / 50),
                ("delegated-file-larger-than-targets-json", n as u64 / 50),
                ("cross-incorporated", n as u64 / 50),
                ("cross-refused", n as u64 / 50),
                ("cross:owner-signed", n as u64 / 50),
                ("cross:holder-adds-target", n as u64 / 100),
                ("cross:owner-sign-refused", n as u64 / 500),
            ],
        },
    )]
}

pub fn replay(ctx: &Ctx, _part: &str, case: &Value) -> Outcome {
    let ku = ctx.known.is_known("C10", KF_URL_NAMES);
    let kt = ctx.known.is_known("C10", KF_THRESHOLD_ABOVE_KEYS);
    crate::engine::replay_case::<Case>(case, |c| prop_with(c, ku, kt))
}

pub fn probes(_ctx: &Ctx) -> Vec<super::Probe> {
    use edit::Op;
    let base = |ops: Vec<Op>| Case { program: Program { consistent: false, online: [(1, 1), (1, 1), (1, 1)], ops, sign_without: 0, link: false }, cross: None };
    let a = prop_with(&base(vec![Op::AddTarget { name: 4, size: 10, seed: 1, custom: false, outside: true }]), false, false);
    let t = prop_with(&base(vec![Op::Delegate { keys: vec![0], threshold: 2, paths: edit::PathsGen::PrefixStar, version: 1 }]), false, false);
    vec![
        super::Probe {
            key: KF_URL_NAMES.into(),
            what: "a target whose name the url crate rewrites when it is joined to the targets base URL (space, non-ASCII, '?', '#', ...) is published by the editor under its literal name but requested under the rewritten one: it cannot be downloaded from the written repository through FilesystemTransport".into(),
            reproduced: a.fail.as_deref().map_or(false, |m| m.contains(KF_URL_NAMES)),
            detail: a.fail.unwrap_or_else(|| "not reproduced".into()),
        },
        super::Probe {
            key: KF_THRESHOLD_ABOVE_KEYS.into(),
            what: "delegate_role accepts a threshold above the number of keys it is given; sign() succeeds and the written repository cannot be loaded by any client".into(),
            reproduced: t.fail.as_deref().map_or(false, |m| m.contains(KF_THRESHOLD_ABOVE_KEYS)),
            detail: t.fail.unwrap_or_else(|| "not reproduced".into()),
        },
    ]
}
