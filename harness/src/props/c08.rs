//! C08 — saving a target is atomic, verified-only and confined to the output directory.

use crate::cjson::sha256_hex;
use crate::engine::{bx, run_part, Ctx, Mode, Outcome, PartReport, PartSpec};
use crate::forge::{self, LoadOpts, Simple};
use crate::transport::{Chunking, MemTransport, Resp};
use proptest::prelude::*;
use serde::{Deserialize, Serialize};
use serde_json::Value;
use std::collections::BTreeMap;
use std::path::{Path, PathBuf};
use std::sync::{Arc, Mutex};
use tough::{Prefix, TargetName};

pub fn info() -> super::Info {
    super::Info {
        level: "exploration",
        assumptions: vec![
            "'every moment during the transfer' is every boundary between two transport chunks (the observer runs inside the transport stream), not arbitrary pre-emption inside a file write",
            "names that TargetName::new rejects cannot enter a repository (checked: a targets.json listing one fails to load)",
            "empty directories may appear after a failed save: the statement speaks of files",
        ],
    }
}

// ---------------------------------------------------------------------------------------------
// sandbox snapshots

#[derive(Debug, Clone, PartialEq, Eq)]
enum Entry {
    File(Vec<u8>),
    Symlink(PathBuf),
    Dir,
    Other,
}

fn snapshot(root: &Path) -> BTreeMap<PathBuf, Entry> {
    let mut m = BTreeMap::new();
    fn walk(p: &Path, m: &mut BTreeMap<PathBuf, Entry>) {
        let Ok(rd) = std::fs::read_dir(p) else { return };
        for e in rd.flatten() {
            let path = e.path();
            let Ok(md) = std::fs::symlink_metadata(&path) else { continue };
            if md.file_type().is_symlink() {
                m.insert(path.clone(), Entry::Symlink(std::fs::read_link(&path).unwrap_or_default()));
            } else if md.is_dir() {
                m.insert(path.clone(), Entry::Dir);
                walk(&path, m);
            } else if md.is_file() {
                m.insert(path.clone(), Entry::File(std::fs::read(&path).unwrap_or_default()));
            } else {
                m.insert(path.clone(), Entry::Other);
            }
        }
    }
    walk(root, &mut m);
    m
}

/// (changed or new non-directory entries, removed entries)
fn diff(before: &BTreeMap<PathBuf, Entry>, after: &BTreeMap<PathBuf, Entry>) -> (Vec<PathBuf>, Vec<PathBuf>) {
    let mut changed = Vec::new();
    let mut removed = Vec::new();
    for (p, e) in after {
        if *e == Entry::Dir {
            continue;
        }
        if before.get(p) != Some(e) {
            changed.push(p.clone());
        }
    }
    for (p, e) in before {
        if *e != Entry::Dir && !after.contains_key(p) {
            removed.push(p.clone());
        }
    }
    (changed, removed)
}

fn make_sandbox() -> (tempfile::TempDir, PathBuf) {
    let s = tempfile::tempdir().expect("tempdir");
    let out = s.path().join("out");
    std::fs::create_dir_all(&out).unwrap();
    std::fs::create_dir_all(s.path().join("sib")).unwrap();
    std::fs::write(s.path().join("decoy.txt"), b"decoy").unwrap();
    std::fs::write(s.path().join("sib").join("keep.txt"), b"keep").unwrap();
    (s, out)
}

// ---------------------------------------------------------------------------------------------
// part A: names

const ALPHA: [char; 8] = ['a', '.', '/', '\\', ' ', '%', '~', ':'];

#[derive(Clone, Debug, Serialize, Deserialize, PartialEq, Eq)]
pub struct NameCase {
    pub names: Vec<String>,
    pub digest_prefix: bool,
}

fn all_names(max_len: usize) -> Vec<String> {
    let mut out = vec![String::new()];
    let mut frontier = vec![String::new()];
    for _ in 0..max_len {
        let mut next = Vec::new();
        for f in &frontier {
            for c in ALPHA {
                let mut s = f.clone();
                s.push(c);
                next.push(s);
            }
        }
        out.extend(next.iter().cloned());
        frontier = next;
    }
    out
}

/// names as sequences of path components: every sequence of 1..=max components over {.., ., a, empty}
/// joined by '/', which reaches deep traversals (`a/../../../a`, `/../../a`) that the character-level
/// enumeration is too short for
fn component_names(max: usize) -> Vec<String> {
    let comps = ["..", ".", "a", ""];
    let mut out: Vec<String> = Vec::new();
    let mut frontier: Vec<Vec<&str>> = vec![vec![]];
    for _ in 0..max {
        let mut next = Vec::new();
        for f in &frontier {
            for c in comps {
                let mut v = f.clone();
                v.push(c);
                next.push(v);
            }
        }
        out.extend(next.iter().map(|v| v.join("/")));
        frontier = next;
    }
    out.sort();
    out.dedup();
    out
}

fn significant(name: &str, resolved: Option<&str>) -> bool {
    resolved.map_or(true, |r| r != name) || name.contains('/') || name.contains('\\') || name.contains("..")
}

pub fn name_prop(case: &NameCase) -> Outcome {
    let mut o = Outcome::new();
    crate::rt::set_now(crate::rt::t0());
    o.weight = case.names.len() as u64;
    o.shape = format!("{:?}", case);
    // split into names the library accepts and names it rejects
    let mut accepted: Vec<(String, TargetName, Vec<u8>)> = Vec::new();
    let mut rejected: Vec<String> = Vec::new();
    for (i, n) in case.names.iter().enumerate() {
        match TargetName::new(n.clone()) {
            Ok(t) => accepted.push((n.clone(), t, format!("content #{i} of {n:?}").into_bytes())),
            Err(_) => rejected.push(n.clone()),
        }
    }
    if !rejected.is_empty() {
        o.label("has-rejected-name");
        // a repository listing a rejected name must not load
        let mut s = Simple::basic(false);
        s.targets = vec![("ok.txt".to_string(), b"ok".to_vec())];
        let bad = rejected[0].clone();
        let built = s.build_full(
            &|role, signed| {
                if role == "targets" {
                    signed["targets"][&bad] = forge::target_entry(b"x");
                }
            },
            &|_, _, _| None,
        );
        let mem = MemTransport::new();
        built.install_meta(&mem);
        if forge::load(&mem, &built.shipped(1), &LoadOpts::default()).is_ok() {
            o.fail(format!("TargetName::new rejects {bad:?} but a repository listing it loads"));
            return o;
        }
    }
    if accepted.is_empty() {
        return o;
    }
    let mut s = Simple::basic(false);
    s.targets = accepted.iter().map(|(n, _, c)| (n.clone(), c.clone())).collect();
    let built = s.build();
    let mem = MemTransport::new();
    built.install_meta(&mem);
    let repo = match forge::load(&mem, &built.shipped(1), &LoadOpts::default()) {
        Ok(r) => r,
        Err(e) => {
            o.fail(format!("repository listing only names that TargetName::new accepts was refused: {e}"));
            return o;
        }
    };
    let prefix = if case.digest_prefix { Prefix::Digest } else { Prefix::None };
    for (raw, tn, content) in &accepted {
        if significant(raw, Some(tn.resolved())) {
            o.nontrivial = true;
            o.label("path-significant-name");
        }
        // serve the content under whatever URL the client will ask for
        let file = tn.resolved().to_string();
        if let Ok(u) = crate::transport::targets_url().join(&file) {
            mem.set_url(u.as_str(), Resp::body(content.clone()));
        }
        let (sandbox, out) = make_sandbox();
        let before = snapshot(sandbox.path());
        // an absolute resolved name must never be written to
        let abs = if tn.resolved().starts_with('/') { Some(PathBuf::from(tn.resolved())) } else { None };
        let abs_before = abs.as_ref().map(|p| std::fs::symlink_metadata(p).is_ok());
        let r = crate::rt::block_on(repo.save_target(tn, &out, prefix));
        let after = snapshot(sandbox.path());
        let (changed, removed) = diff(&before, &after);
        if let (Some(p), Some(false)) = (&abs, abs_before) {
            if std::fs::symlink_metadata(p).is_ok() {
                let _ = std::fs::remove_file(p);
                o.fail(format!("target name {raw:?}: save_target created {} outside the output directory", p.display()));
                return o;
            }
        }
        if !removed.is_empty() {
            o.fail(format!("target name {raw:?}: files disappeared: {removed:?}"));
            return o;
        }
        let canon_out = std::fs::canonicalize(&out).unwrap();
        match r {
            Ok(()) => {
                o.label("saved");
                if changed.len() != 1 {
                    o.fail(format!("target name {raw:?} (prefix {prefix:?}): save reported success, new/changed files: {changed:?}"));
                    return o;
                }
                let p = &changed[0];
                let cp = std::fs::canonicalize(p).unwrap_or_else(|_| p.clone());
                if !cp.starts_with(&canon_out) {
                    o.fail(format!("target name {raw:?}: written to {} which is outside {}", cp.display(), canon_out.display()));
                    return o;
                }
                match after.get(p) {
                    Some(Entry::File(b)) if b == content => {}
                    other => {
                        o.fail(format!("target name {raw:?}: {} is {:?}, expected a regular file with the signed bytes", p.display(), other.map(|e| match e {
                            Entry::File(b) => format!("a file of {} bytes", b.len()),
                            x => format!("{x:?}"),
                        })));
                        return o;
                    }
                }
            }
            Err(e) => {
                o.label("save-refused");
                if !changed.is_empty() {
                    o.fail(format!("target name {raw:?}: save failed ({e}) but files were created or modified: {changed:?}"));
                    return o;
                }
            }
        }
    }
    o
}

// ---------------------------------------------------------------------------------------------
// part B: transfers

#[derive(Clone, Debug, Serialize, Deserialize, PartialEq, Eq)]
pub enum Failure {
    None,
    BitFlip(u32),
    Truncate(u32),
    Oversize(u16),
    ErrorAt(u16),
}

#[derive(Clone, Debug, Serialize, Deserialize, PartialEq, Eq)]
pub struct TransferCase {
    pub len: u32,
    pub seed: u8,
    pub chunking: Chunking,
    pub failure: Failure,
    pub preexisting: bool,
    pub digest_prefix: bool,
    pub subdir: bool,
    pub consistent: bool,
}

pub fn transfer_prop(case: &TransferCase) -> Outcome {
    let mut o = Outcome::new();
    crate::rt::set_now(crate::rt::t0());
    let len = case.len as usize;
    let data = super::c06::content(len, case.seed);
    let name = if case.subdir { "dir/sub/t.bin" } else { "t.bin" };
    let mut s = Simple::basic(case.consistent);
    s.targets = vec![(name.to_string(), data.clone())];
    let built = s.build();
    let mem = MemTransport::new();
    built.install_meta(&mem);
    let digest = sha256_hex(&data);
    let chunk_count = case.chunking.split(&data).len();
    let (resp, clean) = match &case.failure {
        Failure::BitFlip(p) if len > 0 => {
            let mut d = data.clone();
            let pos = *p as usize % (len * 8);
            d[pos / 8] ^= 1 << (pos % 8);
            (Resp::Body(Arc::new(d), case.chunking.clone()), false)
        }
        Failure::Truncate(at) if len > 0 => (Resp::Body(Arc::new(data[..*at as usize % len].to_vec()), case.chunking.clone()), false),
        Failure::Oversize(n) => {
            let mut d = data.clone();
            d.extend(std::iter::repeat(7u8).take((*n as usize).max(1)));
            (Resp::Body(Arc::new(d), case.chunking.clone()), false)
        }
        Failure::ErrorAt(k) => (Resp::ErrorAfter(Arc::new(data.clone()), case.chunking.clone(), *k as usize), *k as usize > chunk_count),
        _ => (Resp::Body(Arc::new(data.clone()), case.chunking.clone()), true),
    };
    let served = if case.consistent { format!("{digest}.{name}") } else { name.to_string() };
    mem.set_target(&served, resp);
    let repo = match forge::load(&mem, &built.shipped(1), &LoadOpts::default()) {
        Ok(r) => r,
        Err(e) => {
            o.fail(format!("valid repository refused: {e}"));
            return o;
        }
    };
    let (sandbox, out) = make_sandbox();
    let rel = if case.digest_prefix { format!("{digest}.{name}") } else { name.to_string() };
    let dest = out.join(&rel);
    let old = b"previous complete file".to_vec();
    if case.preexisting {
        std::fs::create_dir_all(dest.parent().unwrap()).unwrap();
        std::fs::write(&dest, &old).unwrap();
    }
    let before = snapshot(sandbox.path());
    // observer: between any two chunks the destination is absent or holds the old bytes
    let seen: Arc<Mutex<Option<String>>> = Arc::new(Mutex::new(None));
    let observations = Arc::new(std::sync::atomic::AtomicUsize::new(0));
    {
        let dest = dest.clone();
        let old = old.clone();
        let pre = case.preexisting;
        let seen = seen.clone();
        let observations = observations.clone();
        let target_url = crate::transport::targets_url().join(&served).unwrap().to_string();
        mem.set_observer(Some(Arc::new(move |url: &str, delivered: usize| {
            if url != target_url {
                return;
            }
            observations.fetch_add(1, std::sync::atomic::Ordering::SeqCst);
            match std::fs::read(&dest) {
                Err(_) => {
                    if pre {
                        *seen.lock().unwrap() = Some(format!("after {delivered} chunks the previous file at the destination is gone"));
                    }
                }
                Ok(b) => {
                    if !(pre && b == old) {
                        *seen.lock().unwrap() = Some(format!(
                            "after {delivered} chunks the destination holds {} bytes of partial / unverified content",
                            b.len()
                        ));
                    }
                }
            }
        })));
    }
    let tn = TargetName::new(name).unwrap();
    let prefix = if case.digest_prefix { Prefix::Digest } else { Prefix::None };
    let r = crate::rt::block_on(repo.save_target(&tn, &out, prefix));
    mem.set_observer(None);
    let after = snapshot(sandbox.path());
    let (changed, removed) = diff(&before, &after);
    o.label(format!("failure:{}", match case.failure {
        Failure::None => "none",
        Failure::BitFlip(_) => "bitflip",
        Failure::Truncate(_) => "truncate",
        Failure::Oversize(_) => "oversize",
        Failure::ErrorAt(_) => "transport-error",
    }));
    if case.preexisting {
        o.label("preexisting-file");
    }
    if observations.load(std::sync::atomic::Ordering::SeqCst) >= 2 {
        o.label("observed-mid-transfer");
    }
    o.nontrivial = !clean || case.preexisting;
    o.shape = format!("{:?}", case);
    if let Some(msg) = seen.lock().unwrap().clone() {
        o.fail(format!("during the transfer: {msg}"));
        return o;
    }
    if !removed.is_empty() {
        o.fail(format!("files disappeared: {removed:?}"));
        return o;
    }
    match (r, clean) {
        (Ok(()), true) => {
            if changed != vec![dest.clone()] {
                o.fail(format!("save succeeded; expected exactly {} to be new/changed, got {changed:?}", dest.display()));
            } else if after.get(&dest) != Some(&Entry::File(data.clone())) {
                o.fail("save succeeded but the destination does not hold the signed bytes".to_string());
            }
        }
        (Ok(()), false) => {
            o.fail(format!("the server did not send the signed content ({:?}) but save_target reported success", case.failure));
        }
        (Err(e), true) => o.fail(format!("clean transfer failed: {e}")),
        (Err(e), false) => {
            o.label("failed-as-expected");
            if !changed.is_empty() {
                o.fail(format!("save failed ({e}) but files were created or modified: {changed:?} (temporary files must not stay behind, a previous file must survive)"));
            }
        }
    }
    o
}

fn transfer_strategy() -> impl Strategy<Value = TransferCase> {
    prop_oneof![
        2 => prop::sample::select(vec![0u32, 1, 2, 64, 4095, 4096, 4097, 65536]),
        2 => 0u32..5000,
    ]
    .prop_flat_map(|len| {
        let l = len.max(1);
        (
            Just(len),
            any::<u8>(),
            prop_oneof![
                1 => Just(Chunking::Whole),
                2 => prop::sample::select(vec![1usize, 3, 64, 1000]).prop_map(Chunking::Fixed),
                3 => prop::collection::vec(0..=l as usize, 1..6).prop_map(Chunking::Cuts),
            ],
            prop_oneof![
                3 => Just(Failure::None),
                2 => (0..l * 8).prop_map(Failure::BitFlip),
                2 => (0..l).prop_map(Failure::Truncate),
                2 => (1u16..500).prop_map(Failure::Oversize),
                3 => (0u16..8).prop_map(Failure::ErrorAt),
            ],
            any::<bool>(),
            any::<bool>(),
            any::<bool>(),
            any::<bool>(),
        )
            .prop_map(|(len, seed, chunking, failure, preexisting, digest_prefix, subdir, consistent)| TransferCase {
                len,
                seed,
                chunking,
                failure,
                preexisting,
                digest_prefix,
                subdir,
                consistent,
            })
    })
}

fn random_name() -> impl Strategy<Value = String> {
    let tokens = vec![
        "a", "b", ".", "..", "/", "\\", " ", "%", "~", ":", "%2e%2e", "%2F", "\u{1}", "\u{7f}", "é", "中", "🍺", "-", "_", "..\\", "../", "./", "//", "\t", "\n", "*", "?", "#", "&", "$(x)", ";", "'", "\"", "C:",
    ];
    prop::collection::vec(prop::sample::select(tokens), 1..14).prop_map(|v| {
        let s: String = v.concat();
        s.chars().take(40).collect()
    })
}

pub fn check(ctx: &Ctx) -> Vec<PartReport> {
    let mut out = Vec::new();
    let max_len = ctx.tier.pick(4, 5);
    let names = all_names(max_len);
    let mut cases = Vec::new();
    for digest_prefix in [false, true] {
        for chunk in names.chunks(96) {
            cases.push(NameCase { names: chunk.to_vec(), digest_prefix });
        }
    }
    out.push(run_part(
        ctx,
        PartSpec {
            name: "names-exhaustive",
            rule: "EXHAUSTIVE: every string of length <=4 (quick) / <=5 (thorough) over {a . / \\ space % ~ :} as a target name (4681 / 37449 names), both file-name prefix modes; names are packed 96 per forged repository (evaluations count names); each accepted name is saved into a fresh sandbox with decoy siblings. Oracle: Ok => exactly one new regular file, inside the canonical output directory, holding the signed bytes, nothing else in the sandbox changed, an absolute resolved name not created; Err => no file created or modified. Non-trivial: a name that differs from its resolution or contains '/', '\\' or '..'; distinct = batch",
            mode: Mode::Enumerate { cases, complete: true },
            prop: Box::new(name_prop),
            require: vec![("saved", 10), ("save-refused", 2), ("has-rejected-name", 2)],
        },
    ));
    let comp_max = ctx.tier.pick(6, 7);
    let cnames = component_names(comp_max);
    let mut ccases = Vec::new();
    for digest_prefix in [false, true] {
        for chunk in cnames.chunks(96) {
            ccases.push(NameCase { names: chunk.to_vec(), digest_prefix });
        }
    }
    out.push(run_part(
        ctx,
        PartSpec {
            name: "names-components",
            rule: "EXHAUSTIVE: every sequence of 1..=6 (quick) / 1..=7 (thorough) path components over {'..', '.', 'a', empty} joined by '/' as a target name (deep traversals such as 'a/../../../a' and '/../../a' that are longer than the character-level enumeration reaches), both file-name prefix modes, 96 names per forged repository. Same oracle. Non-trivial as above; distinct = batch",
            mode: Mode::Enumerate { cases: ccases, complete: true },
            prop: Box::new(name_prop),
            require: vec![("saved", 10), ("path-significant-name", 10)],
        },
    ));
    let n = ctx.cases(150, 1500);
    out.push(run_part(
        ctx,
        PartSpec {
            name: "names-random",
            rule: "random target names of up to 40 characters from path-significant tokens (.., /, \\, %2e%2e, control characters, multi-byte characters, shell and URL metacharacters), 20 per repository, random prefix mode. Same oracle. Non-trivial as above; distinct = batch",
            mode: Mode::Random {
                cases: n,
                strategy: Box::new(|| bx((prop::collection::vec(random_name(), 20), any::<bool>()).prop_map(|(names, digest_prefix)| NameCase { names, digest_prefix }))),
            },
            prop: Box::new(name_prop),
            require: vec![("saved", n as u64 / 2), ("path-significant-name", n as u64 / 2)],
        },
    ));
    let n2 = ctx.cases(3_000, 30_000);
    out.push(run_part(
        ctx,
        PartSpec {
            name: "transfers",
            rule: "random transfers: content 0..64 KiB, chunkings incl. empty chunks, failure in {none, bit flip, truncation, oversize, transport error after k chunks}, with and without a complete previous file at the destination, both prefix modes, plain and sub-directory name, both consistent-snapshot settings. An observer called by the transport before every chunk reads the destination path: it must be absent or hold the previous bytes. Afterwards: success only for a clean transfer, with exactly the destination new/changed and holding the signed bytes; failure => the multiset (path, content) of files and symlinks in the sandbox is unchanged (no temporary file left, previous file intact). Non-trivial: a failing transfer or a pre-existing file; distinct = whole case",
            mode: Mode::Random { cases: n2, strategy: Box::new(|| bx(transfer_strategy())) },
            prop: Box::new(transfer_prop),
            require: vec![
                ("failed-as-expected", n2 as u64 / 4),
                ("preexisting-file", n2 as u64 / 4),
                ("observed-mid-transfer", n2 as u64 / 3),
                ("failure:transport-error", n2 as u64 / 10),
            ],
        },
    ));
    if ctx.tier == crate::engine::Tier::Thorough && !ctx.stop.load(std::sync::atomic::Ordering::Relaxed) {
        out.push(crate::fuzz::run(ctx, "C08", "target_name", (3_000_000f64 * ctx.scale) as u64, 256));
    }
    out
}

pub fn replay(_ctx: &Ctx, part: &str, case: &Value) -> Outcome {
    if let Some(t) = part.strip_prefix("fuzz:") {
        return crate::fuzz::replay(t, case["input_hex"].as_str().unwrap_or(""));
    }
    match part {
        "transfers" => crate::engine::replay_case::<TransferCase>(case, transfer_prop),
        _ => crate::engine::replay_case::<NameCase>(case, name_prop),
    }
}
