//! C20 — `tuftool root` subcommands keep root.json well-formed, without stale signatures.
//!
//! A case is a palette of three distinct pool keys and a sequence of at most 12 `tuftool root`
//! invocations (init, add-key, remove-key, set-threshold, set-version, bump-version, expire, sign;
//! some of them with unusable arguments so that failing invocations occur). Every step runs the real
//! binary built from /repo in a fresh temporary directory (`root.json` in the working directory).
//!
//! Oracle after every step (nothing is asked of tuftool about *whether* a command succeeds: the
//! observed exit status is taken and its consequences are checked):
//!   * exit != 0  => root.json is byte-for-byte what it was (or still absent);
//!   * exit == 0  => the file parses as `tough::schema::Signed<Root>` (which re-derives every key id)
//!     and, independently, every key-table id is SHA-256 of the harness' own canonical JSON of the
//!     key object;
//!   * a non-`sign` step after which the canonical `signed` member differs from before => the
//!     `signatures` list is empty; a `sign` step leaves the canonical `signed` member as it was;
//!   * a `sign` that succeeded without --ignore-threshold and without --cross-sign => the file
//!     verifies under its own root keys and threshold: `Root::verify_role` is Ok AND (independent
//!     count) at least `threshold` distinct keys that are listed in roles.root.keyids and in the
//!     key table carry a signature that aws-lc accepts over the harness' canonical form;
//!   * a reference model (key table, role -> key ids / threshold, version, expires) built from the
//!     documented meaning of each subcommand predicts those fields after every successful
//!     content command.

use crate::cjson::canon;
use crate::engine::{bx, pick_idx, run_part, Ctx, Mode, Outcome, PartReport, PartSpec};
use crate::keys::{self, Alg, POOL_LEN};
use chrono::{DateTime, FixedOffset, SecondsFormat, TimeZone, Utc};
use proptest::prelude::*;
use serde::{Deserialize, Serialize};
use serde_json::Value;
use std::collections::{BTreeMap, BTreeSet};
use std::path::{Path, PathBuf};
use std::sync::OnceLock;

pub const KF_SIGN_COUNTS_ENTRIES: &str = "sign-counts-signature-entries";

const MAX_STEPS: usize = 12;
const MAX_VERSION: u64 = 1 << 32;
/// 2000-01-01T00:00:00Z ..= 2100-01-01T00:00:00Z
const T_MIN: i64 = 946_684_800;
const T_MAX: i64 = 4_102_444_800;

pub fn info() -> super::Info {
    super::Info {
        level: "exploration",
        assumptions: vec![
            "the binary under test is `tuftool` built from /repo's working tree by `cargo build -p tuftool` (debug profile); VERIF_TUFTOOL_BIN, when set, names another binary to test instead (sensitivity runs only)",
            "a key id of a pool key is SHA-256 of the harness' canonical JSON of the key object; checked at start-up against what `tuftool root add-key` prints for all 19 pool keys",
            "whether an invocation succeeds is never predicted: the observed exit status is taken and its consequences are checked; an invocation killed by a signal or a panic counts as 'exited with an error'",
            "the reference model follows the subcommand help texts; where they are silent (threshold and expiry of a freshly initialised file, add-key without --role, order of key ids) the model adopts what is observed; an expiry argument with a fractional second may be written as either neighbouring whole second",
            "signatures are 'stale' when the canonical signed portion changed while they stayed: a content command that leaves the content as it was may keep them",
        ],
    }
}

// ------------------------------------------------------------------------------------------ case

#[derive(Clone, Copy, Debug, Serialize, Deserialize, PartialEq, Eq, PartialOrd, Ord)]
pub enum Role {
    Root,
    Snapshot,
    Targets,
    Timestamp,
}

pub const ROLES: [Role; 4] = [Role::Root, Role::Snapshot, Role::Targets, Role::Timestamp];

impl Role {
    fn name(self) -> &'static str {
        match self {
            Role::Root => "root",
            Role::Snapshot => "snapshot",
            Role::Targets => "targets",
            Role::Timestamp => "timestamp",
        }
    }
    fn bit(self) -> u8 {
        1 << (self as u8)
    }
}

/// A key argument: `P(x)` = palette key number `pick_idx(x, 3)`; `Missing` = a key file that does
/// not exist; `Garbage` = a file that is not a key. For `remove-key`: `Missing` and `Garbage` are
/// two well-formed key ids that no file lists.
#[derive(Clone, Copy, Debug, Serialize, Deserialize, PartialEq, Eq)]
pub enum KeyPick {
    P(u16),
    Missing,
    Garbage,
}

pub const P0: KeyPick = KeyPick::P(0);
pub const P1: KeyPick = KeyPick::P(0x5556);
pub const P2: KeyPick = KeyPick::P(0xAAAB);

#[derive(Clone, Debug, Serialize, Deserialize, PartialEq, Eq)]
pub enum Cmd {
    Init { version: Option<u64> },
    /// `roles`: bit set over ROLES (bit 0 = root)
    AddKey { keys: Vec<KeyPick>, roles: u8 },
    RemoveKey { key: KeyPick, role: Option<Role> },
    SetThreshold { role: Role, threshold: u64 },
    SetVersion { version: u64 },
    BumpVersion,
    /// the instant `secs`.`nanos` (UTC), written in RFC 3339 with the local offset `offset_min`
    Expire { secs: i64, nanos: u32, offset_min: i16 },
    /// `cross_sign`: index (monotone map) into the copies saved after earlier successful signs
    Sign { keys: Vec<KeyPick>, ignore_threshold: bool, cross_sign: Option<u16> },
}

#[derive(Clone, Debug, Serialize, Deserialize, PartialEq, Eq)]
pub struct Case {
    /// three distinct pool keys (monotone map onto the 19 pool keys, without replacement)
    pub palette: [u16; 3],
    pub steps: Vec<Cmd>,
}

fn palette(p: &[u16; 3]) -> [&'static keys::PoolKey; 3] {
    let mut avail: Vec<usize> = (0..POOL_LEN).collect();
    let mut out = Vec::with_capacity(3);
    for x in p {
        let i = pick_idx(*x, avail.len());
        out.push(&keys::pool()[avail.remove(i)]);
    }
    [out[0], out[1], out[2]]
}

/// smallest u16 that `pick_idx` maps onto `idx` out of `len`
fn inv_pick(idx: usize, len: usize) -> u16 {
    let x = ((idx << 16) + len - 1) / len;
    assert_eq!(pick_idx(x as u16, len), idx);
    x as u16
}

/// palette argument that selects exactly these pool indices
fn palette_of(pool_idx: [usize; 3]) -> [u16; 3] {
    let mut avail: Vec<usize> = (0..POOL_LEN).collect();
    let mut out = [0u16; 3];
    for (n, want) in pool_idx.iter().enumerate() {
        let pos = avail.iter().position(|a| a == want).expect("distinct pool indices");
        out[n] = inv_pick(pos, avail.len());
        avail.remove(pos);
    }
    out
}

fn rfc3339(secs: i64, nanos: u32, offset_min: i16) -> String {
    let secs = secs.clamp(T_MIN, T_MAX);
    let nanos = nanos.min(999_999_999);
    let off = FixedOffset::east_opt(offset_min.clamp(-14 * 60, 14 * 60) as i32 * 60).expect("offset");
    let dt: DateTime<FixedOffset> = Utc.timestamp_opt(secs, nanos).single().expect("instant").with_timezone(&off);
    dt.to_rfc3339_opts(SecondsFormat::AutoSi, true)
}

// ----------------------------------------------------------------------------------- the binary

static BIN: OnceLock<Result<PathBuf, String>> = OnceLock::new();

/// The tuftool binary under test: built from /repo's working tree once per process (before any
/// use), or the binary named by VERIF_TUFTOOL_BIN (sensitivity runs).
pub fn tuftool() -> Result<PathBuf, String> {
    BIN.get_or_init(|| {
        if let Some(p) = std::env::var_os("VERIF_TUFTOOL_BIN") {
            if !p.is_empty() {
                let p = PathBuf::from(p);
                return if p.is_file() { Ok(p) } else { Err(format!("VERIF_TUFTOOL_BIN={} is not a file", p.display())) };
            }
        }
        crate::build_tuftool()
    })
    .clone()
}

struct Ran {
    ok: bool,
    code: Option<i32>,
    stdout: String,
    stderr: String,
}

fn run(bin: &Path, dir: &Path, args: &[String]) -> Ran {
    let out = std::process::Command::new(bin)
        .args(args)
        .current_dir(dir)
        .env("RUST_BACKTRACE", "0")
        // tuftool's tokio runtime starts one worker per core; one is enough for these subcommands
        .env("TOKIO_WORKER_THREADS", "1")
        .env_remove("RUST_LOG")
        .stdin(std::process::Stdio::null())
        .output()
        .unwrap_or_else(|e| panic!("cannot run {}: {e}", bin.display()));
    let tail = |b: &[u8]| {
        let s = String::from_utf8_lossy(b);
        let s = s.trim();
        let mut t: String = s.chars().take(600).collect();
        if t.len() < s.len() {
            t.push_str(" …");
        }
        t
    };
    Ran { ok: out.status.success(), code: out.status.code(), stdout: String::from_utf8_lossy(&out.stdout).into_owned(), stderr: tail(&out.stderr) }
}

/// Start-up check of the key-id assumption: what `tuftool root add-key` prints for each pool key is
/// the id the harness computes.
fn verify_pool_keyids(bin: &Path) -> Result<(), String> {
    let dir = tempfile::tempdir().map_err(|e| format!("tempdir: {e}"))?;
    let s = |x: &str| x.to_string();
    let r = run(bin, dir.path(), &[s("root"), s("init"), s("root.json")]);
    if !r.ok {
        return Err(format!("`tuftool root init` failed in the start-up check: {}", r.stderr));
    }
    let mut args = vec![s("root"), s("add-key"), s("root.json"), s("-r"), s("root")];
    for k in keys::pool() {
        args.push(s("-k"));
        args.push(k.priv_path.display().to_string());
    }
    let r = run(bin, dir.path(), &args);
    if !r.ok {
        return Err(format!("`tuftool root add-key` with the 19 pool keys failed in the start-up check: {}", r.stderr));
    }
    let printed: Vec<String> = r.stdout.lines().filter_map(|l| l.strip_prefix("Added key: ")).map(|x| x.trim().to_ascii_lowercase()).collect();
    let expect: Vec<String> = keys::pool().iter().map(|k| k.keyid.clone()).collect();
    if printed != expect {
        for (i, k) in keys::pool().iter().enumerate() {
            if printed.get(i) != Some(&k.keyid) {
                return Err(format!("key id assumption broken for pool key {}: harness {}, tuftool printed {:?}", k.name, k.keyid, printed.get(i)));
            }
        }
        return Err(format!("tuftool printed {} key ids for {} pool keys", printed.len(), expect.len()));
    }
    Ok(())
}

// ------------------------------------------------------------------------------ reference model

#[derive(Clone, Debug)]
struct Model {
    version: u64,
    /// whole seconds since the epoch; `None` = not documented (set by init from the clock)
    expires: Option<(i64, bool)>, // (second, argument had a fractional part)
    keys: BTreeSet<String>,
    /// role -> (key ids, threshold; `None` = whatever init wrote)
    roles: BTreeMap<&'static str, (BTreeSet<String>, Option<u64>)>,
}

impl Model {
    fn fresh(version: u64) -> Self {
        Model { version, expires: None, keys: BTreeSet::new(), roles: ROLES.iter().map(|r| (r.name(), (BTreeSet::new(), None))).collect() }
    }
}

/// What the file says, read from the JSON value (not through tough).
struct Seen {
    version: Option<u64>,
    expires: Option<DateTime<FixedOffset>>,
    keys: BTreeSet<String>,
    roles: BTreeMap<String, (BTreeSet<String>, Option<u64>)>,
    /// (key id, signature bytes)
    sigs: Vec<(String, Vec<u8>)>,
    canon_signed: Vec<u8>,
}

fn see(v: &Value) -> Result<Seen, String> {
    let signed = v.get("signed").ok_or("no `signed` member")?;
    let canon_signed = canon(signed)?;
    let mut roles = BTreeMap::new();
    if let Some(m) = signed.get("roles").and_then(Value::as_object) {
        for (name, rk) in m {
            let ids = rk.get("keyids").and_then(Value::as_array).map(|a| a.iter().filter_map(|x| x.as_str().map(|s| s.to_ascii_lowercase())).collect()).unwrap_or_default();
            roles.insert(name.clone(), (ids, rk.get("threshold").and_then(Value::as_u64)));
        }
    }
    let mut sigs = Vec::new();
    for s in v.get("signatures").and_then(Value::as_array).ok_or("no `signatures` array")? {
        let id = s.get("keyid").and_then(Value::as_str).ok_or("signature without keyid")?.to_ascii_lowercase();
        let sig = hex::decode(s.get("sig").and_then(Value::as_str).ok_or("signature without sig")?).map_err(|e| format!("sig is not hex: {e}"))?;
        sigs.push((id, sig));
    }
    Ok(Seen {
        version: signed.get("version").and_then(Value::as_u64),
        expires: signed.get("expires").and_then(Value::as_str).and_then(|s| DateTime::parse_from_rfc3339(s).ok()),
        keys: signed.get("keys").and_then(Value::as_object).map(|m| m.keys().map(|k| k.to_ascii_lowercase()).collect()).unwrap_or_default(),
        roles,
        sigs,
        canon_signed,
    })
}

fn short(ids: &BTreeSet<String>) -> Vec<String> {
    ids.iter().map(|i| i.chars().take(8).collect()).collect()
}

/// first difference between the model and the file, if any
fn model_diff(m: &Model, s: &Seen) -> Option<String> {
    if s.version != Some(m.version) {
        return Some(format!("version is {:?}, the model says {}", s.version, m.version));
    }
    match (m.expires, s.expires) {
        (_, None) => return Some("`expires` is missing or not RFC 3339".into()),
        (Some((sec, frac)), Some(e)) => {
            let got = e.timestamp();
            let ok = e.timestamp_subsec_nanos() == 0 && (got == sec || (frac && got == sec + 1));
            if !ok {
                return Some(format!("expires is {} (epoch second {got}), the model says epoch second {sec}{}", e.to_rfc3339(), if frac { " (or the next one)" } else { "" }));
            }
        }
        (None, Some(_)) => {}
    }
    if s.keys != m.keys {
        return Some(format!("key table lists {:?}, the model says {:?}", short(&s.keys), short(&m.keys)));
    }
    for (name, (ids, thr)) in &m.roles {
        let Some((sids, sthr)) = s.roles.get(*name) else {
            return Some(format!("role {name} is missing"));
        };
        if sids != ids {
            return Some(format!("role {name} lists key ids {:?}, the model says {:?}", short(sids), short(ids)));
        }
        if let Some(t) = thr {
            if *sthr != Some(*t) {
                return Some(format!("role {name} has threshold {sthr:?}, the model says {t}"));
            }
        }
    }
    if s.roles.len() != m.roles.len() {
        return Some(format!("roles are {:?}, the model has {:?}", s.roles.keys().collect::<Vec<_>>(), m.roles.keys().collect::<Vec<_>>()));
    }
    None
}

// ---------------------------------------------------------------------------------- interpreter

const UNLISTED_A: &str = "0000000000000000000000000000000000000000000000000000000000000000";
const UNLISTED_B: &str = "abcd";

struct Current {
    bytes: Vec<u8>,
    canon_signed: Vec<u8>,
    nsigs: usize,
}

fn describe(args: &[String]) -> String {
    let mut v = vec!["tuftool".to_string()];
    for a in args {
        // shorten pool key paths
        let a = match a.rfind("/keys/") {
            Some(p) if a.starts_with('/') => format!("<keys>/{}", &a[p + 6..]),
            _ => a.clone(),
        };
        v.push(a);
    }
    v.join(" ")
}

pub fn prop_with(case: &Case, known: bool) -> Outcome {
    let mut o = Outcome::new();
    let bin = match tuftool() {
        Ok(b) => b,
        Err(e) => {
            // harness trouble, never a violation (`run_part` turns this label into exit 2)
            o.inconclusive = 1;
            o.label(format!("HARNESS-PANIC tuftool unavailable: {e}"));
            return o;
        }
    };
    let pal = palette(&case.palette);
    let dir = tempfile::tempdir().expect("tempdir");
    let d = dir.path();
    std::fs::write(d.join("garbage.key"), b"this is not a key\n").expect("write garbage.key");
    let root_path = d.join("root.json");

    let key_of = |k: &KeyPick| -> Option<&'static keys::PoolKey> {
        match k {
            KeyPick::P(x) => Some(pal[pick_idx(*x, 3)]),
            _ => None,
        }
    };
    let key_file = |k: &KeyPick| -> String {
        match k {
            KeyPick::P(x) => pal[pick_idx(*x, 3)].priv_path.display().to_string(),
            KeyPick::Missing => "no-such-key.pk8".to_string(),
            KeyPick::Garbage => "garbage.key".to_string(),
        }
    };

    let mut model: Option<Model> = None;
    let mut cur: Option<Current> = None;
    let mut saved = 0usize;
    let mut log: Vec<String> = Vec::new();
    let mut shape = String::new();
    let (mut any_mut_after_sign, mut any_thr2, mut any_cross) = (false, false, false);
    let mut failures = 0u32;
    let s = |x: &str| x.to_string();

    for (i, cmd) in case.steps.iter().take(MAX_STEPS).enumerate() {
        // ---- build the invocation
        let mut args: Vec<String> = vec![s("root")];
        let mut is_sign = false;
        let mut plain_sign = false;
        match cmd {
            Cmd::Init { version } => {
                args.extend([s("init"), s("root.json")]);
                if let Some(v) = version {
                    args.extend([s("--version"), (*v).clamp(1, MAX_VERSION).to_string()]);
                }
            }
            Cmd::AddKey { keys, roles } => {
                args.extend([s("add-key"), s("root.json")]);
                for k in keys.iter().take(3) {
                    args.extend([s("-k"), key_file(k)]);
                }
                for r in ROLES {
                    if roles & r.bit() != 0 {
                        args.extend([s("-r"), s(r.name())]);
                    }
                }
            }
            Cmd::RemoveKey { key, role } => {
                let id = match key_of(key) {
                    Some(k) => k.keyid.clone(),
                    None if *key == KeyPick::Missing => s(UNLISTED_A),
                    None => s(UNLISTED_B),
                };
                args.extend([s("remove-key"), s("root.json"), id]);
                if let Some(r) = role {
                    args.push(s(r.name()));
                }
            }
            Cmd::SetThreshold { role, threshold } => {
                args.extend([s("set-threshold"), s("root.json"), s(role.name()), (*threshold).clamp(1, 3).to_string()]);
            }
            Cmd::SetVersion { version } => {
                args.extend([s("set-version"), s("root.json"), (*version).clamp(1, MAX_VERSION).to_string()]);
            }
            Cmd::BumpVersion => args.extend([s("bump-version"), s("root.json")]),
            Cmd::Expire { secs, nanos, offset_min } => {
                args.extend([s("expire"), s("root.json"), rfc3339(*secs, *nanos, *offset_min)]);
            }
            Cmd::Sign { keys, ignore_threshold, cross_sign } => {
                is_sign = true;
                plain_sign = !*ignore_threshold && cross_sign.is_none();
                args.extend([s("sign"), s("root.json")]);
                for k in keys.iter().take(3) {
                    args.extend([s("-k"), key_file(k)]);
                }
                if *ignore_threshold {
                    args.push(s("--ignore-threshold"));
                }
                if let Some(x) = cross_sign {
                    let f = if saved == 0 { s("saved-none.json") } else { format!("saved-{}.json", pick_idx(*x, saved)) };
                    if saved > 0 {
                        any_cross = true;
                        o.label("cross-sign-step");
                    }
                    args.extend([s("--cross-sign"), f]);
                }
            }
        }

        // ---- run
        let r = run(&bin, d, &args);
        let after = std::fs::read(&root_path).ok();
        log.push(format!("[{i}] {} -> {}", describe(&args), if r.ok { "exit 0".to_string() } else { format!("exit {:?}: {}", r.code, r.stderr.lines().next().unwrap_or("")) }));
        let kind = match cmd {
            Cmd::Init { .. } => 'I',
            Cmd::AddKey { .. } => 'A',
            Cmd::RemoveKey { .. } => 'R',
            Cmd::SetThreshold { .. } => 'T',
            Cmd::SetVersion { .. } => 'V',
            Cmd::BumpVersion => 'B',
            Cmd::Expire { .. } => 'E',
            Cmd::Sign { .. } => 'S',
        };
        shape.push(kind);
        macro_rules! violation {
            ($($t:tt)*) => {{
                o.fail(format!("step {i}: {}\n  sequence so far:\n    {}", format!($($t)*), log.join("\n    ")));
                return o;
            }};
        }

        if !r.ok {
            // ---- a subcommand that exits with an error leaves the previous file intact
            shape.push('-');
            o.label("failing-invocation");
            failures += 1;
            if is_sign {
                o.label("sign-failed");
            }
            if r.code == Some(101) || r.code.is_none() {
                o.label("tuftool-crashed");
            }
            match (&cur, &after) {
                (None, None) => {}
                (Some(c), Some(a)) if c.bytes == *a => {}
                (None, Some(_)) => violation!("the invocation failed (exit {:?}: {}) but created root.json", r.code, r.stderr),
                (Some(_), None) => violation!("the invocation failed (exit {:?}: {}) and root.json is gone", r.code, r.stderr),
                (Some(_), Some(_)) => violation!("the invocation failed (exit {:?}: {}) but root.json was modified", r.code, r.stderr),
            }
            continue;
        }
        shape.push('+');

        // ---- exit 0: the file is a parseable root whose key ids are correct
        let Some(bytes) = after else {
            violation!("exit 0 but there is no root.json");
        };
        let parsed: tough::schema::Signed<tough::schema::Root> = match serde_json::from_slice(&bytes) {
            Ok(p) => p,
            Err(e) => violation!("exit 0 but root.json does not parse as Signed<Root>: {e}"),
        };
        let value: Value = match serde_json::from_slice(&bytes) {
            Ok(v) => v,
            Err(e) => violation!("exit 0 but root.json is not JSON: {e}"),
        };
        let seen = match see(&value) {
            Ok(x) => x,
            Err(e) => violation!("exit 0 but root.json is malformed: {e}"),
        };
        if let Some(table) = value["signed"].get("keys").and_then(Value::as_object) {
            for (id, obj) in table {
                let want = keys::keyid_of(obj);
                if !want.eq_ignore_ascii_case(id) {
                    violation!("key table entry {id} holds a key object whose id is {want}");
                }
            }
        } else {
            violation!("exit 0 but root.json has no key table");
        }

        let had_sigs = cur.as_ref().map_or(false, |c| c.nsigs > 0);
        let changed = cur.as_ref().map(|c| c.canon_signed != seen.canon_signed);

        if is_sign {
            o.label("sign-ok");
            match changed {
                Some(false) => {}
                Some(true) => violation!("`sign` changed the signed content of root.json"),
                None => violation!("`sign` exited 0 although there was no root.json to sign"),
            }
            shape.push_str(&format!("{}{}{}", if plain_sign { "" } else { "f" }, seen.sigs.len().min(4), if matches!(cmd, Cmd::Sign { cross_sign: Some(_), .. }) { "x" } else { "" }));
            if matches!(cmd, Cmd::Sign { cross_sign: Some(_), .. }) {
                o.label("cross-sign-ok");
            }
            for (id, _) in &seen.sigs {
                if let Some(k) = keys::by_keyid(id) {
                    o.label(match k.alg {
                        Alg::Ed25519 => "signed-by:ed25519",
                        Alg::Ecdsa => "signed-by:ecdsa",
                        Alg::Rsa => "signed-by:rsa",
                    });
                }
            }
            if plain_sign {
                // ---- the root verifies under its own root keys and threshold
                let (root_ids, thr) = match seen.roles.get("root") {
                    Some((ids, Some(t))) => (ids.clone(), *t),
                    _ => violation!("plain `sign` succeeded on a file without a usable root role"),
                };
                let mut valid: BTreeSet<&str> = BTreeSet::new();
                for (id, sig) in &seen.sigs {
                    if root_ids.contains(id) && seen.keys.contains(id) {
                        // the key object in the table is the pool key's (its id was re-derived above)
                        if let Some(k) = keys::by_keyid(id) {
                            if k.verify(&seen.canon_signed, sig) {
                                valid.insert(id.as_str());
                            }
                        }
                    }
                }
                let independent_ok = valid.len() as u64 >= thr;
                let tough_verdict = parsed.signed.verify_role(&parsed);
                let entries = seen.sigs.len() as u64;
                match (independent_ok, &tough_verdict) {
                    (true, Ok(())) => {
                        o.label("plain-sign-ok");
                        if thr >= 2 {
                            o.label("plain-sign-ok-threshold>=2");
                        }
                    }
                    (false, Err(_)) if entries >= thr => {
                        // exactly the listed finding: enough signature *entries*, too few valid
                        // signatures by distinct keys of the root role
                        if known {
                            o.known_hits += 1;
                            o.label("known:sign-counts-signature-entries");
                        } else {
                            violation!(
                                "`sign` without --ignore-threshold and without --cross-sign exited 0, but the file does not verify under its own root keys: threshold {thr}, {entries} signature entries, {} valid signature(s) by distinct keys of the root role ({}) [{KF_SIGN_COUNTS_ENTRIES}]",
                                valid.len(),
                                tough_verdict.as_ref().err().map(|e| e.to_string()).unwrap_or_default()
                            );
                        }
                    }
                    (false, _) => violation!(
                        "`sign` without --ignore-threshold and without --cross-sign exited 0, but the file does not verify under its own root keys: threshold {thr}, {entries} signature entries, {} valid by distinct root keys; Root::verify_role says {:?}",
                        valid.len(),
                        tough_verdict.as_ref().map_err(|e| e.to_string())
                    ),
                    (true, Err(e)) => violation!(
                        "`sign` without --ignore-threshold and without --cross-sign exited 0 and {} distinct root keys signed validly (threshold {thr}), but Root::verify_role refuses the file: {e}",
                        valid.len()
                    ),
                }
            }
            // keep a copy as a cross-sign source
            std::fs::write(d.join(format!("saved-{saved}.json")), &bytes).expect("save copy");
            saved += 1;
        } else {
            // ---- every content-changing subcommand has removed all existing signatures
            if changed == Some(true) && !seen.sigs.is_empty() {
                violation!("the signed content changed but {} signature(s) were kept", seen.sigs.len());
            }
            if changed == Some(true) && had_sigs {
                any_mut_after_sign = true;
                o.label("mutation-after-sign");
                o.label(format!("mutation-after-sign:{kind}"));
            }
            if cur.is_none() && !seen.sigs.is_empty() {
                violation!("a freshly created root.json carries {} signature(s)", seen.sigs.len());
            }

            // ---- the model predicts the content
            match cmd {
                Cmd::Init { version } => {
                    model = Some(Model::fresh(version.map_or(1, |v| v.clamp(1, MAX_VERSION))));
                }
                _ => {
                    let Some(m) = model.as_mut() else {
                        // the file appeared out of nothing and parses: the model has nothing to say
                        o.inconclusive += 1;
                        o.label("exit-0-on-missing-file");
                        return o;
                    };
                    match cmd {
                        Cmd::AddKey { keys, roles } => {
                            for k in keys.iter().take(3) {
                                let Some(k) = key_of(k) else {
                                    // add-key accepted an unusable key file: the model has nothing to say
                                    o.inconclusive += 1;
                                    o.label("add-key-accepted-unusable-key-file");
                                    return o;
                                };
                                if *roles & 0xf == 0 {
                                    // help text is silent about add-key without --role
                                    if seen.keys.contains(&k.keyid) {
                                        m.keys.insert(k.keyid.clone());
                                    }
                                } else {
                                    m.keys.insert(k.keyid.clone());
                                }
                                for r in ROLES {
                                    if roles & r.bit() != 0 {
                                        m.roles.get_mut(r.name()).expect("role").0.insert(k.keyid.clone());
                                    }
                                }
                            }
                            shape.push_str(&format!("{:x}", roles & 0xf));
                        }
                        Cmd::RemoveKey { key, role } => {
                            let id = match key_of(key) {
                                Some(k) => k.keyid.clone(),
                                None if *key == KeyPick::Missing => s(UNLISTED_A),
                                None => s(UNLISTED_B),
                            };
                            match role {
                                Some(r) => {
                                    m.roles.get_mut(r.name()).expect("role").0.remove(&id);
                                    shape.push('r');
                                }
                                None => {
                                    for (_, (ids, _)) in m.roles.iter_mut() {
                                        ids.remove(&id);
                                    }
                                    m.keys.remove(&id);
                                }
                            }
                        }
                        Cmd::SetThreshold { role, threshold } => {
                            let t = (*threshold).clamp(1, 3);
                            m.roles.get_mut(role.name()).expect("role").1 = Some(t);
                            if t >= 2 {
                                any_thr2 = true;
                                o.label("threshold>=2");
                                shape.push('h');
                            }
                        }
                        Cmd::SetVersion { version } => m.version = (*version).clamp(1, MAX_VERSION),
                        Cmd::BumpVersion => m.version += 1,
                        Cmd::Expire { secs, nanos, .. } => m.expires = Some(((*secs).clamp(T_MIN, T_MAX), (*nanos).min(999_999_999) != 0)),
                        Cmd::Init { .. } | Cmd::Sign { .. } => unreachable!(),
                    }
                }
            }
            let m = model.as_ref().expect("model");
            if let Some(diff) = model_diff(m, &seen) {
                violation!("content after a successful command differs from the reference model: {diff}");
            }
        }
        if had_sigs && seen.sigs.is_empty() {
            o.label("signatures-cleared");
        }
        cur = Some(Current { bytes, canon_signed: seen.canon_signed, nsigs: seen.sigs.len() });
    }

    let n = case.steps.len().min(MAX_STEPS);
    o.label(match n {
        0..=4 => "steps:0-4",
        5..=8 => "steps:5-8",
        _ => "steps:9-12",
    });
    o.label(match failures {
        0 => "failures:0",
        1..=2 => "failures:1-2",
        _ => "failures:3+",
    });
    o.nontrivial = any_mut_after_sign || any_thr2 || any_cross;
    o.shape = shape;
    o
}

/// `prop_with` behind a shrink budget. One evaluation costs up to a dozen process launches (a
/// failing tuftool invocation alone takes 0.5 .. 1 s because it symbolises a backtrace), so an
/// unbounded shrink would take many minutes. After the first violation in this process at most
/// SHRINK_BUDGET further sequences are run; beyond that a candidate is answered from memory only
/// (a sequence that was seen to fail keeps its message, anything else counts as "not smaller").
/// The reported case is therefore always one that was really observed to violate the property,
/// possibly not the smallest one.
const SHRINK_BUDGET: u32 = 150;

fn budgeted(case: &Case, known: bool) -> Outcome {
    use std::sync::atomic::{AtomicU32, Ordering};
    use std::sync::Mutex;
    static AFTER_FIRST: AtomicU32 = AtomicU32::new(0);
    static SEEN_FAILING: Mutex<Vec<(String, String)>> = Mutex::new(Vec::new());
    let key = serde_json::to_string(case).unwrap_or_default();
    if AFTER_FIRST.load(Ordering::Relaxed) > 0 && AFTER_FIRST.fetch_add(1, Ordering::Relaxed) > SHRINK_BUDGET {
        let mut o = Outcome::new();
        if let Some((_, msg)) = SEEN_FAILING.lock().unwrap().iter().find(|(k, _)| *k == key) {
            o.fail(msg.clone());
        }
        return o;
    }
    let o = prop_with(case, known);
    if let Some(msg) = &o.fail {
        SEEN_FAILING.lock().unwrap().push((key, msg.clone()));
        let _ = AFTER_FIRST.compare_exchange(0, 1, Ordering::Relaxed, Ordering::Relaxed);
    }
    o
}

// ----------------------------------------------------------------------------------- generators

/// a palette key; key 0 most often, so that the keys of one sequence's commands tend to coincide
fn pal_pick() -> impl Strategy<Value = KeyPick> {
    prop_oneof![3 => 0u16..0x5556, 2 => 0x5556u16..0xAAAB, 1 => 0xAAABu16..=0xFFFF].prop_map(KeyPick::P)
}

fn key_pick() -> impl Strategy<Value = KeyPick> {
    prop_oneof![24 => pal_pick(), 1 => Just(KeyPick::Missing), 1 => Just(KeyPick::Garbage)]
}

fn role() -> impl Strategy<Value = Role> {
    prop_oneof![3 => Just(Role::Root), 1 => Just(Role::Snapshot), 1 => Just(Role::Targets), 1 => Just(Role::Timestamp)]
}

fn roles_mask() -> impl Strategy<Value = u8> {
    prop_oneof![4 => Just(15u8), 2 => Just(1u8), 3 => 0u8..16]
}

fn version() -> impl Strategy<Value = u64> {
    prop_oneof![4 => 1u64..=10, 1 => Just(MAX_VERSION), 1 => Just(MAX_VERSION - 1), 2 => 1u64..=MAX_VERSION]
}

fn threshold() -> impl Strategy<Value = u64> {
    prop_oneof![3 => Just(1u64), 2 => Just(2u64), 1 => Just(3u64)]
}

fn expire() -> impl Strategy<Value = Cmd> {
    (
        T_MIN..=T_MAX,
        prop_oneof![3 => Just(0u32), 1 => Just(999_999_999u32), 1 => Just(500_000_000u32), 1 => 0u32..1_000_000_000],
        prop_oneof![2 => Just(0i16), 1 => -840i16..=840],
    )
        .prop_map(|(secs, nanos, offset_min)| Cmd::Expire { secs, nanos, offset_min })
}

fn sign_plain_all() -> impl Strategy<Value = Cmd> {
    Just(Cmd::Sign { keys: vec![P0, P1, P2], ignore_threshold: false, cross_sign: None })
}

fn sign_any() -> impl Strategy<Value = Cmd> {
    (prop::collection::vec(key_pick(), 0..=3), prop::bool::weighted(0.6)).prop_map(|(keys, ignore_threshold)| Cmd::Sign { keys, ignore_threshold, cross_sign: None })
}

fn sign_cross() -> impl Strategy<Value = Cmd> {
    (prop::collection::vec(pal_pick(), 1..=3), prop::bool::weighted(0.7), any::<u16>()).prop_map(|(keys, ignore_threshold, x)| Cmd::Sign { keys, ignore_threshold, cross_sign: Some(x) })
}

fn add_key() -> impl Strategy<Value = Cmd> {
    (prop::collection::vec(key_pick(), 1..=3), roles_mask()).prop_map(|(keys, roles)| Cmd::AddKey { keys, roles })
}

fn remove_key() -> impl Strategy<Value = Cmd> {
    (key_pick(), prop::option::weighted(0.6, role())).prop_map(|(key, role)| Cmd::RemoveKey { key, role })
}

/// any command; `strict` = weight of the signs that insist on the thresholds (they fail, at the
/// price of a second per failure, unless all four roles can meet their threshold)
fn cmd_mix(strict: u32) -> impl Strategy<Value = Cmd> {
    prop_oneof![
        1 => prop::option::weighted(0.4, version()).prop_map(|version| Cmd::Init { version }),
        3 => add_key(),
        2 => remove_key(),
        2 => (role(), threshold()).prop_map(|(role, threshold)| Cmd::SetThreshold { role, threshold }),
        1 => version().prop_map(|version| Cmd::SetVersion { version }),
        2 => Just(Cmd::BumpVersion),
        2 => expire(),
        strict => sign_plain_all(),
        7 - strict => sign_any(),
        1 => sign_cross(),
    ]
}

fn cmd() -> impl Strategy<Value = Cmd> {
    cmd_mix(4)
}

fn distinct_palette_keys(keys: &[KeyPick]) -> u64 {
    let mut set = BTreeSet::new();
    for k in keys {
        if let KeyPick::P(x) = k {
            set.insert(pick_idx(*x, 3));
        }
    }
    set.len() as u64
}

/// free-form sequences: possibly one command on the missing file, `init`, then anything in any order
fn free_case() -> impl Strategy<Value = Case> {
    (any::<[u16; 3]>(), prop::collection::vec(cmd_mix(1), 0..=1), prop::option::weighted(0.3, version()), prop::collection::vec(cmd_mix(1), 0..=10)).prop_map(|(palette, before, version, after)| {
        let mut steps = before;
        steps.push(Cmd::Init { version });
        steps.extend(after);
        Case { palette, steps }
    })
}

/// init, add keys, set the four thresholds, then a free tail of up to six commands
fn setup_case() -> impl Strategy<Value = Case> {
    (
        any::<[u16; 3]>(),
        prop::option::weighted(0.3, version()),
        prop::collection::vec(pal_pick(), 1..=3),
        roles_mask(),
        [threshold(), threshold(), threshold(), threshold()],
        prop::bool::weighted(0.85),
        prop::collection::vec(cmd(), 0..=6),
    )
        .prop_map(|(palette, version, keys, roles, thr, clamp, tail)| {
            let n = distinct_palette_keys(&keys).max(1);
            let mut steps = vec![Cmd::Init { version }, Cmd::AddKey { keys, roles }];
            for (r, t) in ROLES.iter().zip(thr) {
                // mostly a threshold the role can meet, so that a plain sign can succeed
                steps.push(Cmd::SetThreshold { role: *r, threshold: if clamp { t.min(n) } else { t } });
            }
            steps.extend(tail);
            Case { palette, steps }
        })
}

/// parameters of a key-rotation script (see `rotation`)
#[derive(Clone, Debug)]
struct Rot {
    /// roles of the old key O = palette key 0
    old_roles: u8,
    /// None: O stays; Some(None): `remove-key O`; Some(Some(r)): `remove-key O r`
    removal: Option<Option<Role>>,
    /// add palette keys 1 and 2 (otherwise key 1 only) to all roles
    two_new: bool,
    root_threshold: u64,
    cross_ignore: bool,
    /// keys of the final plain sign
    final_keys: Vec<KeyPick>,
}

/// init; add-key O; sign -i -k O (saved-0 = "the old root"); [remove-key O]; add-key A [B] to all
/// roles; the four thresholds; sign --cross-sign saved-0 [-i] -k O; sign -k <final keys>
fn rotation(r: &Rot) -> Vec<Cmd> {
    let mut steps = vec![
        Cmd::Init { version: None },
        Cmd::AddKey { keys: vec![P0], roles: r.old_roles },
        Cmd::Sign { keys: vec![P0], ignore_threshold: true, cross_sign: None },
    ];
    if let Some(role) = r.removal {
        steps.push(Cmd::RemoveKey { key: P0, role });
    }
    steps.push(Cmd::AddKey { keys: if r.two_new { vec![P1, P2] } else { vec![P1] }, roles: 15 });
    for role in ROLES {
        steps.push(Cmd::SetThreshold { role, threshold: if role == Role::Root { r.root_threshold } else { 1 } });
    }
    steps.push(Cmd::Sign { keys: vec![P0], ignore_threshold: r.cross_ignore, cross_sign: Some(0) });
    steps.push(Cmd::Sign { keys: r.final_keys.clone(), ignore_threshold: false, cross_sign: None });
    steps
}

fn rotation_case() -> impl Strategy<Value = Case> {
    (
        any::<[u16; 3]>(),
        prop_oneof![3 => Just(15u8), 2 => Just(1u8)],
        prop_oneof![3 => Just(Some(None::<Role>)), 2 => Just(Some(Some(Role::Root))), 2 => Just(None::<Option<Role>>)],
        prop::bool::weighted(0.7),
        threshold(),
        prop::bool::weighted(0.8),
        prop::collection::vec(prop_oneof![Just(P1), Just(P2)], 1..=2),
        prop::option::weighted(0.5, cmd()),
    )
        .prop_map(|(palette, old_roles, removal, two_new, root_threshold, cross_ignore, final_keys, tail)| {
            let mut steps = rotation(&Rot { old_roles, removal, two_new, root_threshold, cross_ignore, final_keys });
            if let Some(t) = tail {
                if steps.len() < MAX_STEPS {
                    steps.push(t);
                }
            }
            Case { palette, steps }
        })
}

/// a content command (an edit)
fn edit() -> impl Strategy<Value = Cmd> {
    prop_oneof![
        2 => add_key(),
        2 => remove_key(),
        4 => (role(), threshold()).prop_map(|(role, threshold)| Cmd::SetThreshold { role, threshold }),
        2 => version().prop_map(|version| Cmd::SetVersion { version }),
        2 => Just(Cmd::BumpVersion),
        3 => expire(),
        1 => prop::option::weighted(0.4, version()).prop_map(|version| Cmd::Init { version }),
    ]
}

/// init, add keys to all roles, four thresholds the roles can meet, then one to three rounds of
/// (sign, edit): every edit meets a file that carries signatures
fn sign_edit_case() -> impl Strategy<Value = Case> {
    (
        any::<[u16; 3]>(),
        prop::sample::subsequence(vec![P0, P1, P2], 1..=3),
        [threshold(), threshold(), threshold(), threshold()],
        prop::collection::vec((prop_oneof![3 => sign_plain_all().boxed(), 1 => sign_any().boxed()], edit()), 1..=3),
    )
        .prop_map(|(palette, keys, thr, rounds)| {
            let n = distinct_palette_keys(&keys).max(1);
            let mut steps = vec![Cmd::Init { version: None }, Cmd::AddKey { keys, roles: 15 }];
            for (r, t) in ROLES.iter().zip(thr) {
                steps.push(Cmd::SetThreshold { role: *r, threshold: t.min(n) });
            }
            for (sign, edit) in rounds {
                steps.push(sign);
                steps.push(edit);
            }
            Case { palette, steps }
        })
}

fn case_strategy() -> impl Strategy<Value = Case> {
    prop_oneof![2 => free_case(), 4 => setup_case(), 4 => sign_edit_case(), 3 => rotation_case()]
}

/// Every rotation script over: root threshold 1..3, O removed entirely / from the root role /
/// kept, one or two new keys, cross-sign with or without --ignore-threshold, every non-empty subset
/// of the new keys for the final plain sign; O = ed25519, A = rsa, B = ecdsa.
fn rotation_grid() -> Vec<Case> {
    let palette = palette_of([keys::ED.start, keys::RSA.start, keys::EC.start]);
    let mut v = Vec::new();
    for root_threshold in 1..=3u64 {
        for removal in [Some(None), Some(Some(Role::Root)), None] {
            for two_new in [false, true] {
                for cross_ignore in [true, false] {
                    let subsets: Vec<Vec<KeyPick>> = if two_new { vec![vec![P1], vec![P2], vec![P1, P2]] } else { vec![vec![P1]] };
                    for final_keys in subsets {
                        v.push(Case { palette, steps: rotation(&Rot { old_roles: 15, removal, two_new, root_threshold, cross_ignore, final_keys }) });
                    }
                }
            }
        }
    }
    v
}

/// Scripts in which a key that is already in the key table is attached to further roles after the
/// file was signed (a content change that adds no key): `init; add-key K0 (roles a); add-key K1
/// (all roles); set-threshold x4 = 1; sign -k K0 K1; add-key Kx (roles b)`, for every a, b over
/// the four roles and x in {0, 1}, followed by a plain sign again.
fn regroup_grid() -> Vec<Case> {
    let palette = palette_of([keys::ED.start, keys::ED.start + 1, keys::EC.start]);
    let mut v = Vec::new();
    for a in [1u8, 3, 9] {
        for b in 1u8..16 {
            for x in [P0, P1] {
                let mut steps = vec![Cmd::Init { version: None }, Cmd::AddKey { keys: vec![P0], roles: a }, Cmd::AddKey { keys: vec![P1], roles: 15 }];
                for r in ROLES {
                    steps.push(Cmd::SetThreshold { role: r, threshold: 1 });
                }
                steps.push(Cmd::Sign { keys: vec![P0, P1], ignore_threshold: false, cross_sign: None });
                steps.push(Cmd::AddKey { keys: vec![x], roles: b });
                steps.push(Cmd::Sign { keys: vec![P1], ignore_threshold: false, cross_sign: None });
                v.push(Case { palette, steps });
            }
        }
    }
    // a key that ends up in the key table but in no role (added without --role, or retired from its
    // only role), removed after the file was signed: the key table is signed content
    for way in 0..=ROLES.len() {
        for then_role in [None, Some(ROLES[0]), Some(ROLES[2])] {
            let mut steps = vec![Cmd::Init { version: None }, Cmd::AddKey { keys: vec![P0], roles: 15 }];
            if way == 0 {
                steps.push(Cmd::AddKey { keys: vec![P1], roles: 0 });
            } else {
                let r = ROLES[way - 1];
                steps.push(Cmd::AddKey { keys: vec![P1], roles: r.bit() });
                steps.push(Cmd::RemoveKey { key: P1, role: Some(r) });
            }
            for r in ROLES {
                steps.push(Cmd::SetThreshold { role: r, threshold: 1 });
            }
            steps.push(Cmd::Sign { keys: vec![P0], ignore_threshold: false, cross_sign: None });
            steps.push(Cmd::RemoveKey { key: P1, role: then_role });
            steps.push(Cmd::Sign { keys: vec![P0], ignore_threshold: false, cross_sign: None });
            v.push(Case { palette, steps });
        }
    }
    v
}

/// signatures collected over several `sign` invocations: two incremental signs (`-i`, one key each)
/// followed by a plain sign with every non-empty subset of the three keys, root threshold 2 and 3
fn incremental_grid() -> Vec<Case> {
    let palette = palette_of([keys::ED.start, keys::ED.start + 1, keys::EC.start]);
    let ks = [P0, P1, P2];
    let mut v = Vec::new();
    for t in [2u64, 3] {
        for first in 0..3 {
            for second in 0..3 {
                for subset in 1u8..8 {
                    let mut steps = vec![Cmd::Init { version: None }, Cmd::AddKey { keys: vec![P0, P1, P2], roles: 15 }];
                    for r in ROLES {
                        steps.push(Cmd::SetThreshold { role: r, threshold: if r == ROLES[0] { t } else { 1 } });
                    }
                    steps.push(Cmd::Sign { keys: vec![ks[first].clone()], ignore_threshold: true, cross_sign: None });
                    steps.push(Cmd::Sign { keys: vec![ks[second].clone()], ignore_threshold: true, cross_sign: None });
                    // the order of the -k arguments matters to what is written last
                    let mut last: Vec<KeyPick> = (0..3).filter(|i| subset & (1 << i) != 0).map(|i| ks[i].clone()).collect();
                    if (first + second) % 2 == 1 {
                        last.reverse();
                    }
                    steps.push(Cmd::Sign { keys: last, ignore_threshold: false, cross_sign: None });
                    v.push(Case { palette, steps });
                }
            }
        }
    }
    v
}

// ------------------------------------------------------------------------------------ interface

pub fn check(ctx: &Ctx) -> Vec<PartReport> {
    let trouble = |msg: String| vec![PartReport { part: "setup".into(), rule: "tuftool must be built from /repo before anything is checked".into(), trouble: Some(msg), ..Default::default() }];
    let bin = match tuftool() {
        Ok(b) => b,
        Err(e) => return trouble(e),
    };
    if let Err(e) = verify_pool_keyids(&bin) {
        return trouble(e);
    }
    let known = ctx.known.is_known("C20", KF_SIGN_COUNTS_ENTRIES);
    let mut out = Vec::new();
    let grid = rotation_grid();
    out.push(run_part(
        ctx,
        PartSpec {
            name: "rotation-grid",
            rule: "EXHAUSTIVE over the key-rotation scripts `init; add-key O (all roles); sign -i -k O (kept as the old root); [remove-key O | remove-key O root]; add-key A [B] (all roles); set-threshold x4 (root: t); sign --cross-sign old [-i] -k O; sign -k S`: t in 1..3, three ways of retiring O, one or two new keys, cross-sign with/without --ignore-threshold, S every non-empty subset of the new keys (72 scripts; O ed25519, A rsa, B ecdsa). Oracle after every step as in the module text. Non-trivial: every script (cross-sign step); distinct = sequence of (subcommand, exit status, flags, signature count)",
            mode: Mode::Enumerate { cases: grid, complete: true },
            prop: Box::new(move |c: &Case| budgeted(c, known)),
            require: vec![("cross-sign-ok", 30), ("plain-sign-ok", 10), ("sign-failed", 10), ("mutation-after-sign", 72)],
        },
    ));
    out.push(run_part(
        ctx,
        PartSpec {
            name: "regroup-grid",
            rule: "EXHAUSTIVE over the scripts `init; add-key K0 (roles a); add-key K1 (all roles); set-threshold x4 = 1; sign -k K0 K1; add-key Kx (roles b); sign -k K1` with a in {root, root+snapshot, root+timestamp}, b every non-empty role set, x in {0,1} (90 scripts): a key already in the key table is attached to further roles after the file was signed; plus 15 scripts in which a key that is in the key table but in no role (added without --role, or retired from its only role) is removed after signing. Same oracle after every step. Non-trivial: every script; distinct = sequence of (subcommand, exit status, flags, signature count)",
            mode: Mode::Enumerate { cases: regroup_grid(), complete: true },
            prop: Box::new(move |c: &Case| budgeted(c, known)),
            require: vec![],
        },
    ));
    out.push(run_part(
        ctx,
        PartSpec {
            name: "incremental-grid",
            rule: "EXHAUSTIVE over the scripts `init; add-key K0 K1 K2 (all roles); set-threshold root t, others 1; sign -i -k Ka; sign -i -k Kb; sign -k S` with t in {2,3}, a and b in 0..3, S every non-empty subset of the three keys in either argument order (126 scripts): signatures collected over several invocations; a final plain sign that exits 0 must leave a file that verifies. Same oracle after every step. Non-trivial: every script; distinct = sequence of (subcommand, exit status, flags, signature count)",
            mode: Mode::Enumerate { cases: incremental_grid(), complete: true },
            prop: Box::new(move |c: &Case| budgeted(c, known)),
            require: vec![("plain-sign-ok", 20), ("sign-failed", 10)],
        },
    ));
    let n = ctx.cases(150, 3_000);
    let nn = n as u64;
    out.push(run_part(
        ctx,
        PartSpec {
            name: "sequences",
            rule: "random sequences of 0..12 `tuftool root` invocations over a palette of three distinct pool keys (ed25519 / ecdsa pkcs8, rsa PEM): 2/13 free-form (at most one command on the missing file, `init`, then any subcommand in any order), 4/13 `init; add-key; set-threshold x4` followed by up to six free commands, 4/13 the same prefix followed by one to three rounds of (sign, content command), 3/13 key-rotation scripts with random parameters and one free command; arguments include missing and unparsable key files, unlisted key ids, empty key lists and cross-sign sources that do not exist. Non-trivial: a content change after a successful sign, a successful set-threshold >= 2, or a cross-sign step with an existing older copy; distinct = sequence of (subcommand, exit status, flags, signature count)",
            mode: Mode::Random { cases: n, strategy: Box::new(|| bx(case_strategy())) },
            prop: Box::new(move |c: &Case| budgeted(c, known)),
            require: vec![
                ("sign-ok", nn / 3),
                ("plain-sign-ok", nn / 6),
                ("plain-sign-ok-threshold>=2", nn / 30),
                ("mutation-after-sign", nn / 5),
                ("threshold>=2", nn / 5),
                ("cross-sign-step", nn / 10),
                ("cross-sign-ok", nn / 12),
                ("failing-invocation", nn / 4),
                ("signatures-cleared", nn / 5),
                // every clear_sigs call site meets a signed file
                ("mutation-after-sign:A", (nn / 150).max(1)),
                ("mutation-after-sign:R", (nn / 150).max(1)),
                ("mutation-after-sign:T", (nn / 150).max(1)),
                ("mutation-after-sign:V", (nn / 150).max(1)),
                ("mutation-after-sign:B", (nn / 150).max(1)),
                ("mutation-after-sign:E", (nn / 150).max(1)),
            ],
        },
    ));
    out
}

pub fn replay(ctx: &Ctx, _part: &str, case: &Value) -> Outcome {
    let known = ctx.known.is_known("C20", KF_SIGN_COUNTS_ENTRIES);
    crate::engine::replay_case::<Case>(case, |c| crate::engine::guarded(&|c: &Case| prop_with(c, known), c))
}

/// Directed probe for the listed finding: threshold 2, root keys A and B, an older root with key O;
/// `sign --cross-sign old --ignore-threshold -k O`, then a plain `sign -k A` exits 0 with one
/// signature by a root key.
pub fn probes(_ctx: &Ctx) -> Vec<super::Probe> {
    let what = "`tuftool root sign` compares the root threshold with the number of signature entries, not with valid signatures by distinct keys of the root role: with threshold 2 and root keys A, B, after `sign --cross-sign old.json --ignore-threshold -k O` a plain `sign -k A` exits 0 although the file carries one signature by a root key and does not verify under its own keys";
    let (reproduced, detail) = match tuftool() {
        Err(e) => (false, format!("tuftool unavailable: {e}")),
        Ok(_) => {
            let case = Case {
                palette: palette_of([keys::ED.start, keys::ED.start + 1, keys::RSA.start]),
                steps: rotation(&Rot { old_roles: 1, removal: Some(None), two_new: true, root_threshold: 2, cross_ignore: true, final_keys: vec![P1] }),
            };
            let o = crate::engine::guarded(&|c: &Case| prop_with(c, false), &case);
            let hit = o.fail.as_deref().map_or(false, |m| m.contains(KF_SIGN_COUNTS_ENTRIES));
            (hit, o.fail.unwrap_or_else(|| "not reproduced".into()))
        }
    };
    vec![super::Probe { key: KF_SIGN_COUNTS_ENTRIES.into(), what: what.into(), reproduced, detail }]
}
