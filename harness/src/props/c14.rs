//! C14 — online-key rotation lets clients recover from fast-forwarded versions.

use crate::engine::{bx, run_part, Ctx, Mode, Outcome, PartReport, PartSpec};
use crate::forge::{self, classify, ErrClass, LoadOpts, RoleKeys, RootSpec, Simple};
use crate::keys::key;
use crate::transport::MemTransport;
use proptest::prelude::*;
use serde::{Deserialize, Serialize};
use serde_json::{json, Value};

pub fn info() -> super::Info {
    super::Info {
        level: "exploration",
        assumptions: vec![
            "'replaces the keys' covers: all keys replaced, one of two keys replaced (an old key remains authorized), one of two keys removed; merely adding a key is generated but either outcome is accepted",
            "rotate-and-rotate-back and threshold-only changes are not generated (C03 treats them)",
            "cycle 2 ships the root that cycle 1 trusted",
        ],
    }
}

#[derive(Clone, Copy, Debug, Serialize, Deserialize, PartialEq, Eq)]
pub enum Rot {
    Same,
    Disjoint,
    /// [A,B] -> [B,C]
    Overlap,
    /// [A,B] -> [B]
    RemoveOne,
    /// [A,B] -> [A,B,C]
    Add,
}

#[derive(Clone, Debug, Serialize, Deserialize, PartialEq, Eq)]
pub struct Case {
    pub consistent: bool,
    /// rotation of timestamp, snapshot, targets, root role keys
    pub rot: [Rot; 4],
    /// which of the (up to two) new roots carries the rotation of each role: false = root 2, true = root 3
    pub late: [bool; 4],
    pub new_roots: u8,
    /// cycle-1 documents of timestamp, snapshot, targets signed by the key that stays (B) or goes (A)
    pub signer_stays: [bool; 3],
    /// cycle-1 versions (timestamp, snapshot, targets)
    pub v1: [u64; 3],
    /// cycle-2 versions
    pub v2: [u64; 3],
}

fn base(role: usize) -> RoleKeys {
    // timestamp 1,2  snapshot 3,4  targets 5,6  root 0,7
    match role {
        0 => RoleKeys::new(vec![1, 2], 1),
        1 => RoleKeys::new(vec![3, 4], 1),
        2 => RoleKeys::new(vec![5, 6], 1),
        _ => RoleKeys::new(vec![0, 7], 1),
    }
}

fn rotated(role: usize, r: Rot) -> RoleKeys {
    let b = base(role);
    let (a, bb) = (b.keys[0], b.keys[1]);
    let fresh = 8 + role * 2; // 8..15 (ed25519 8..11, ecdsa 12..15: an algorithm change comes along)
    match r {
        Rot::Same => b,
        Rot::Disjoint => RoleKeys::new(vec![fresh, fresh + 1], 1),
        Rot::Overlap => RoleKeys::new(vec![bb, fresh], 1),
        Rot::RemoveOne => RoleKeys::new(vec![bb], 1),
        Rot::Add => RoleKeys::new(vec![a, bb, fresh], 1),
    }
}

fn root_at(version: usize, case: &Case) -> RootSpec {
    let n = case.new_roots.clamp(1, 2) as usize;
    let role = |i: usize| -> RoleKeys {
        let at = if n == 2 && case.late[i] { 3 } else { 2 };
        if version >= at {
            rotated(i, case.rot[i])
        } else {
            base(i)
        }
    };
    let mut r = RootSpec::basic(version as u64, case.consistent);
    r.timestamp = role(0);
    r.snapshot = role(1);
    r.targets = role(2);
    r.root = role(3);
    r
}

pub fn prop(case: &Case) -> Outcome {
    let mut o = Outcome::new();
    crate::rt::set_now(crate::rt::t0());
    let dir = tempfile::tempdir().expect("tempdir");
    let n = case.new_roots.clamp(1, 2) as usize;
    // ---- cycle 1: root 1, inflated versions, signed by one chosen key per role
    let mut s1 = Simple::basic(case.consistent);
    s1.roots = vec![root_at(1, case)];
    s1.ts_version = case.v1[0].max(1);
    s1.snap_version = case.v1[1].max(1);
    s1.targets_version = case.v1[2].max(1);
    s1.targets = vec![("a".into(), b"a".to_vec())];
    let signer = |role: usize| -> usize {
        let b = base(role);
        if case.signer_stays[role] { b.keys[1] } else { b.keys[0] }
    };
    let b1 = s1.build_with(&|role, _signed, c| {
        let i = match role {
            "timestamp" => 0,
            "snapshot" => 1,
            "targets" => 2,
            _ => return None,
        };
        Some(vec![forge::sig_entry(key(signer(i)), c)])
    });
    let mem = MemTransport::new();
    b1.install(&mem);
    let opts = LoadOpts { datastore: Some(dir.path().to_path_buf()), ..Default::default() };
    if let Err(e) = forge::load(&mem, &b1.shipped(1), &opts) {
        o.fail(format!("cycle 1 (validly signed, versions {:?}) failed: {e}", case.v1));
        return o;
    }
    // ---- cycle 2: roots 1..=1+n, repository restarted at the given versions, signed by the new keys
    let mut s2 = Simple::basic(case.consistent);
    s2.roots = (1..=1 + n).map(|v| root_at(v, case)).collect();
    s2.ts_version = case.v2[0].max(1);
    s2.snap_version = case.v2[1].max(1);
    s2.targets_version = case.v2[2].max(1);
    s2.targets = vec![("a".into(), b"a".to_vec())];
    let b2 = s2.build();
    let mem2 = MemTransport::new();
    b2.install(&mem2);
    let r = forge::load(&mem2, &b2.shipped(1), &opts);

    let replaced = |i: usize| matches!(case.rot[i], Rot::Disjoint | Rot::Overlap | Rot::RemoveOne);
    let added_only = |i: usize| case.rot[i] == Rot::Add;
    let online_replaced = replaced(0) || replaced(1);
    let online_touched = online_replaced || added_only(0) || added_only(1);
    let lowered = [case.v2[0].max(1) < case.v1[0].max(1), case.v2[1].max(1) < case.v1[1].max(1), case.v2[2].max(1) < case.v1[2].max(1)];
    let targets_keys_same = case.rot[2] == Rot::Same;
    // expectation
    #[derive(Debug, PartialEq)]
    enum Exp {
        MustOk,
        MustRefuse,
        Either,
    }
    let exp = if !lowered.iter().any(|x| *x) {
        Exp::MustOk
    } else if (lowered[0] || lowered[1] || lowered[2]) && !online_touched {
        // neither timestamp nor snapshot keys changed: their stored state (incl. the snapshot's
        // listing of the targets version) keeps protecting
        Exp::MustRefuse
    } else if lowered[2] && targets_keys_same {
        // the stored targets metadata still verifies and still protects
        Exp::MustRefuse
    } else if lowered[2] {
        // targets keys changed: the statement promises recovery for timestamp and snapshot only
        Exp::Either
    } else if online_replaced {
        Exp::MustOk
    } else {
        // a key was merely added to timestamp/snapshot
        Exp::Either
    };
    o.label(format!("expect:{exp:?}"));
    if online_replaced {
        o.label("online-keys-replaced");
    }
    if case.v1.iter().any(|v| *v >= 1 << 62) {
        o.label("inflated-to-2^63");
    }
    if (0..2).any(|i| matches!(case.rot[i], Rot::Overlap | Rot::RemoveOne) && case.signer_stays[i]) {
        o.label("inflated-doc-signed-by-key-that-stays");
    }
    o.nontrivial = lowered.iter().any(|x| *x);
    o.shape = format!("{:?}", case);
    match (&r, exp) {
        (Ok(_), Exp::MustRefuse) => o.fail(format!(
            "rollback accepted: versions {:?} -> {:?}, rotations {:?} (timestamp/snapshot keys {}, targets keys {})",
            case.v1,
            case.v2,
            case.rot,
            if online_touched { "changed" } else { "unchanged" },
            if targets_keys_same { "unchanged" } else { "changed" }
        )),
        (Err(e), Exp::MustOk) => o.fail(format!(
            "no recovery: a newer root replaced timestamp/snapshot keys (rotations {:?}, signer stays {:?}) and the repository restarted at {:?} (stored {:?}), but the cycle failed: {e}",
            case.rot, case.signer_stays, case.v2, case.v1
        )),
        (Err(e), Exp::MustRefuse) => {
            if classify(e) != ErrClass::OlderMetadata {
                o.fail(format!("refused, but not as a rollback: {e}"));
            }
        }
        _ => {}
    }
    o
}

fn version_hi() -> impl Strategy<Value = u64> {
    prop_oneof![
        2 => Just(1u64 << 63),
        1 => Just(u64::MAX),
        1 => Just(1u64 << 32),
        2 => 2u64..1000,
        1 => Just(1u64),
    ]
}

fn version_lo() -> impl Strategy<Value = u64> {
    prop_oneof![3 => Just(1u64), 1 => 1u64..1000, 1 => Just(u64::MAX)]
}

fn rot() -> impl Strategy<Value = Rot> {
    prop_oneof![3 => Just(Rot::Same), 2 => Just(Rot::Disjoint), 2 => Just(Rot::Overlap), 1 => Just(Rot::RemoveOne), 1 => Just(Rot::Add)]
}

fn case_strategy() -> impl Strategy<Value = Case> {
    (
        any::<bool>(),
        [rot(), rot(), rot(), rot()],
        any::<[bool; 4]>(),
        1u8..=2,
        any::<[bool; 3]>(),
        [version_hi(), version_hi(), version_hi()],
        [version_lo(), version_lo(), version_lo()],
    )
        .prop_map(|(consistent, rot, late, new_roots, signer_stays, v1, v2)| Case { consistent, rot, late, new_roots, signer_stays, v1, v2 })
}

fn grid() -> Vec<Case> {
    let mut v = Vec::new();
    // which roles rotate: timestamp, snapshot, both, neither, only targets, only root
    let who: [[bool; 4]; 6] = [
        [true, false, false, false],
        [false, true, false, false],
        [true, true, false, false],
        [false, false, false, false],
        [false, false, true, false],
        [false, false, false, true],
    ];
    for w in who {
        for kind in [Rot::Disjoint, Rot::Overlap, Rot::RemoveOne] {
            for stays in [false, true] {
                for new_roots in [1u8, 2] {
                    for targets_lowered in [false, true] {
                        let r = |i: usize| if w[i] { kind } else { Rot::Same };
                        v.push(Case {
                            consistent: stays,
                            rot: [r(0), r(1), r(2), r(3)],
                            late: [false, true, false, true],
                            new_roots,
                            signer_stays: [stays; 3],
                            v1: [1 << 63, 1 << 63, if targets_lowered { 1 << 63 } else { 1 }],
                            v2: [1, 1, 1],
                        });
                    }
                }
            }
        }
    }
    v
}

pub fn check(ctx: &Ctx) -> Vec<PartReport> {
    let mut out = Vec::new();
    out.push(run_part(
        ctx,
        PartSpec {
            name: "rotation-grid",
            rule: "EXHAUSTIVE grid: which roles a newer root rotates {timestamp, snapshot, both, neither, only targets, only root} x kind {all keys replaced, one of two replaced, one of two removed} x inflated documents signed by the key that stays / goes x 1 or 2 new roots x targets version inflated or not; cycle 1 stores timestamp/snapshot at 2^63, cycle 2 restarts at version 1. Oracle: timestamp or snapshot keys replaced => must succeed unless the targets version went down with unchanged targets keys; nothing replaced => must be refused as a rollback. Non-trivial: always (a version goes down); distinct = case",
            mode: Mode::Enumerate { cases: grid(), complete: true },
            prop: Box::new(prop),
            require: vec![],
        },
    ));
    let n = ctx.cases(16_000, 250_000);
    out.push(run_part(
        ctx,
        PartSpec {
            name: "histories",
            rule: "random: rotation kind per role (same / disjoint / overlap / remove one / add one) for timestamp, snapshot, targets and root, carried by root 2 or root 3, cycle-1 versions from {1, <1000, 2^32, 2^63, u64::MAX} signed by the key that stays or goes, cycle-2 versions from {1, <1000, u64::MAX}. Same oracle; pure additions of a key may go either way. Non-trivial: some version goes down; distinct = case",
            mode: Mode::Random { cases: n, strategy: Box::new(|| bx(case_strategy())) },
            prop: Box::new(prop),
            require: vec![
                ("expect:MustOk", n as u64 / 5),
                ("expect:MustRefuse", n as u64 / 10),
                ("online-keys-replaced", n as u64 / 4),
                ("inflated-to-2^63", n as u64 / 4),
                ("inflated-doc-signed-by-key-that-stays", n as u64 / 20),
            ],
        },
    ));
    out
}

pub fn replay(_ctx: &Ctx, _part: &str, case: &Value) -> Outcome {
    crate::engine::replay_case::<Case>(case, prop)
}
