//! C01 — only metadata signed by a threshold of distinct authorized keys is trusted.
//!
//! Domain: a verification site, a key set (1..4 keys, mixed algorithms) and threshold (1..4) for
//! the role checked at that site, and a signature list (0..5 entries) over a vocabulary of valid and
//! invalid kinds. Everything else in the repository is signed cleanly by one key over threshold 1.
//! Oracle: d = number of distinct authorized, table-listed keys with at least one genuinely valid
//! signature over this very document; accept iff d >= threshold. Computed from the case alone.
//! Observation: (a) a full `RepositoryLoader::load` through the scripted transport, (b) the public
//! `Root::verify_role` / `Delegations::verify_role` on the parsed documents.

use crate::cjson::canon;
use crate::engine::{bx, run_part, Ctx, Mode, Outcome, PartReport, PartSpec};
use crate::forge::{self, classify, failed_role, DelegNode, ErrClass, LoadOpts, PathSpec, RoleKeys, RootSpec, Simple};
use crate::keys::{key, Alg};
use crate::transport::MemTransport;
use proptest::prelude::*;
use serde::{Deserialize, Serialize};
use serde_json::{json, Value};

pub fn info() -> super::Info {
    super::Info {
        level: "exploration",
        assumptions: vec![
            "a signature is 'genuinely valid' when aws-lc produced it over the forge's own canonical form of the document",
            "no search for cryptographic weaknesses",
        ],
    }
}

#[derive(Clone, Copy, Debug, Serialize, Deserialize, PartialEq, Eq)]
pub enum Site {
    ShippedRootSelf,
    HopOldKeys,
    HopNewKeys,
    Timestamp,
    Snapshot,
    Targets,
    Deleg1,
    Deleg2,
}

pub const SITES: [Site; 8] = [
    Site::ShippedRootSelf,
    Site::HopOldKeys,
    Site::HopNewKeys,
    Site::Timestamp,
    Site::Snapshot,
    Site::Targets,
    Site::Deleg1,
    Site::Deleg2,
];

#[derive(Clone, Debug, Serialize, Deserialize, PartialEq, Eq)]
pub enum Sig {
    /// valid signature by role key k
    Valid(u8),
    /// valid signature by role key k, key id spelled in upper-case hex
    Upper(u8),
    /// signature by role key k with one bit flipped
    Corrupt(u8, u16),
    /// valid signature by role key k over the same document with another version number
    OtherContent(u8),
    /// valid signature by a key that is in the key table but listed for another role
    OtherRole,
    /// valid signature by a key that is in no table
    Unknown,
    /// valid signature by a key whose id is listed for the role but whose key object is not in the table
    Missing,
}

#[derive(Clone, Debug, Serialize, Deserialize, PartialEq, Eq)]
pub struct Case {
    pub site: Site,
    pub consistent: bool,
    /// picks into the candidate key list (distinct after mapping); length = number of role keys
    pub keys: Vec<u8>,
    pub threshold: u8,
    pub sigs: Vec<Sig>,
    /// only at the site "root hop under new keys": the shipped root lists the SAME root keys with
    /// threshold 1, so that the hop changes nothing but the threshold
    #[serde(default)]
    pub same_keys: bool,
    /// the authorizing document lists every key id of the tested role twice (a key listed twice is
    /// still one key)
    #[serde(default)]
    pub dup_keyids: bool,
}

// reserved pool keys (all ed25519) for the clean parts of the repository
const K_ROOT: usize = 0;
const K_TS: usize = 1;
const K_SNAP: usize = 2;
const K_TARGETS: usize = 3;
const K_SIBLING: usize = 4;
const K_D1: usize = 5;
const K_UNKNOWN: usize = 6;
const K_GHOST: usize = 7;
const K_ROOT2: usize = 8;
/// candidates for the role under test: ed 9..12, ecdsa 12..16, rsa 16..19
const CANDIDATES: [usize; 10] = [9, 10, 11, 12, 13, 14, 15, 16, 17, 18];

fn role_keys(case: &Case) -> Vec<usize> {
    let mut out: Vec<usize> = Vec::new();
    for p in &case.keys {
        let mut i = *p as usize % CANDIDATES.len();
        // distinct by construction: advance to the next free candidate
        while out.contains(&CANDIDATES[i]) {
            i = (i + 1) % CANDIDATES.len();
        }
        out.push(CANDIDATES[i]);
    }
    out
}

/// The oracle: number of distinct role keys with a genuinely valid signature over this document.
fn distinct_valid(case: &Case, n: usize) -> usize {
    let mut seen = std::collections::BTreeSet::new();
    for s in &case.sigs {
        match s {
            Sig::Valid(k) | Sig::Upper(k) => {
                seen.insert(*k as usize % n);
            }
            _ => {}
        }
    }
    seen.len()
}

fn uses_missing(case: &Case) -> bool {
    case.sigs.iter().any(|s| matches!(s, Sig::Missing))
}

/// role name (forge naming) of the document whose signature list is under test, and of the
/// document that authorizes it
fn tested_doc(site: Site) -> &'static str {
    match site {
        Site::ShippedRootSelf => "root:1",
        Site::HopOldKeys | Site::HopNewKeys => "root:2",
        Site::Timestamp => "timestamp",
        Site::Snapshot => "snapshot",
        Site::Targets => "targets",
        Site::Deleg1 => "d1",
        Site::Deleg2 => "d2",
    }
}
fn parent_doc(site: Site) -> &'static str {
    match site {
        Site::ShippedRootSelf | Site::HopOldKeys | Site::Timestamp | Site::Snapshot | Site::Targets => "root:1",
        Site::HopNewKeys => "root:2",
        Site::Deleg1 => "targets",
        Site::Deleg2 => "d1",
    }
}

fn bump_version(signed: &Value) -> Value {
    let mut v = signed.clone();
    let cur = v["version"].as_u64().unwrap_or(1);
    v["version"] = json!(cur + 1);
    v
}

pub struct Scenario {
    pub built: forge::Built,
    pub expected_accept: bool,
    pub d: usize,
}

pub fn build(case: &Case) -> Scenario {
    let rk = role_keys(case);
    let n = rk.len().max(1);
    let t = case.threshold.max(1) as u64;
    let tested = RoleKeys::new(rk.clone(), t);
    let site = case.site;

    let mut r1 = RootSpec::basic(1, case.consistent);
    r1.root = RoleKeys::one(K_ROOT);
    r1.timestamp = RoleKeys::one(K_TS);
    r1.snapshot = RoleKeys::one(K_SNAP);
    r1.targets = RoleKeys::one(K_TARGETS);
    let mut roots = vec![];
    match site {
        Site::ShippedRootSelf => {
            r1.root = tested.clone();
            roots.push(r1);
        }
        Site::HopOldKeys => {
            r1.root = tested.clone();
            let mut r2 = r1.clone();
            r2.version = 2;
            r2.root = RoleKeys::one(K_ROOT2);
            roots.push(r1);
            roots.push(r2);
        }
        Site::HopNewKeys => {
            if case.same_keys {
                r1.root = RoleKeys::new(rk.clone(), 1);
            }
            let mut r2 = r1.clone();
            r2.version = 2;
            r2.root = tested.clone();
            roots.push(r1);
            roots.push(r2);
        }
        Site::Timestamp => {
            r1.timestamp = tested.clone();
            roots.push(r1);
        }
        Site::Snapshot => {
            r1.snapshot = tested.clone();
            roots.push(r1);
        }
        Site::Targets => {
            r1.targets = tested.clone();
            roots.push(r1);
        }
        Site::Deleg1 | Site::Deleg2 => roots.push(r1),
    }
    // a key "listed for another role" must be in the same table: for root sites the timestamp key
    // is; for the delegated sites a sibling role carries it.
    let mut s = Simple::basic(case.consistent);
    s.roots = roots;
    s.targets = vec![("top.txt".into(), b"top".to_vec())];
    match site {
        Site::Deleg1 => {
            let mut d1 = DelegNode::new("d1", 0, PathSpec::Paths(vec!["d1/*".into()]));
            d1.keys = tested.clone();
            d1.targets = vec![("d1/a.txt".into(), b"a".to_vec())];
            let sib = DelegNode::new("sib", K_SIBLING, PathSpec::Paths(vec!["sib/*".into()]));
            s.delegs = vec![d1, sib];
        }
        Site::Deleg2 => {
            let mut d2 = DelegNode::new("d2", 0, PathSpec::Paths(vec!["d1/d2/*".into()]));
            d2.keys = tested.clone();
            d2.targets = vec![("d1/d2/b.txt".into(), b"b".to_vec())];
            let sib = DelegNode::new("sib", K_SIBLING, PathSpec::Paths(vec!["d1/sib/*".into()]));
            let mut d1 = DelegNode::new("d1", K_D1, PathSpec::Paths(vec!["d1/*".into()]));
            d1.children = vec![d2, sib];
            s.delegs = vec![d1];
        }
        _ => {}
    }
    let other_role_key = match site {
        Site::Deleg1 | Site::Deleg2 => K_SIBLING,
        Site::Timestamp => K_SNAP,
        _ => K_TS,
    };
    let ghost = uses_missing(case);
    let parent = parent_doc(site);
    let tdoc = tested_doc(site);
    let ghost_id = key(K_GHOST).keyid.clone();

    let patch = |role: &str, signed: &mut Value| {
        if role != parent || !(ghost || case.dup_keyids) {
            return;
        }
        // list the ghost key id for the tested role without adding its key object to the table
        let arr = match site {
            Site::ShippedRootSelf | Site::HopOldKeys | Site::HopNewKeys => &mut signed["roles"]["root"]["keyids"],
            Site::Timestamp => &mut signed["roles"]["timestamp"]["keyids"],
            Site::Snapshot => &mut signed["roles"]["snapshot"]["keyids"],
            Site::Targets => &mut signed["roles"]["targets"]["keyids"],
            Site::Deleg1 | Site::Deleg2 => {
                let roles = signed["delegations"]["roles"].as_array_mut().expect("roles");
                let r = roles.iter_mut().find(|r| r["name"] == json!(tdoc)).expect("tested role");
                &mut r["keyids"]
            }
        };
        let arr = arr.as_array_mut().expect("keyids");
        if case.dup_keyids {
            let again = arr.clone();
            arr.extend(again);
        }
        if ghost {
            arr.push(json!(ghost_id));
        }
    };

    let sigs = |role: &str, signed: &Value, c: &[u8]| -> Option<Vec<Value>> {
        if role != tdoc {
            return None;
        }
        let mut list: Vec<Value> = Vec::new();
        for sg in &case.sigs {
            let e = match sg {
                Sig::Valid(k) => {
                    let kk = key(rk[*k as usize % n]);
                    json!({"keyid": kk.keyid, "sig": hex::encode(kk.sign(c))})
                }
                Sig::Upper(k) => {
                    let kk = key(rk[*k as usize % n]);
                    json!({"keyid": kk.keyid.to_uppercase(), "sig": hex::encode(kk.sign(c))})
                }
                Sig::Corrupt(k, bit) => {
                    let kk = key(rk[*k as usize % n]);
                    let mut sig = kk.sign(c);
                    let pos = (*bit as usize) % (sig.len() * 8);
                    sig[pos / 8] ^= 1 << (pos % 8);
                    json!({"keyid": kk.keyid, "sig": hex::encode(sig)})
                }
                Sig::OtherContent(k) => {
                    let kk = key(rk[*k as usize % n]);
                    let other = canon(&bump_version(signed)).unwrap();
                    json!({"keyid": kk.keyid, "sig": hex::encode(kk.sign(&other))})
                }
                Sig::OtherRole => {
                    let kk = key(other_role_key);
                    json!({"keyid": kk.keyid, "sig": hex::encode(kk.sign(c))})
                }
                Sig::Unknown => {
                    let kk = key(K_UNKNOWN);
                    json!({"keyid": kk.keyid, "sig": hex::encode(kk.sign(c))})
                }
                Sig::Missing => {
                    let kk = key(K_GHOST);
                    json!({"keyid": kk.keyid, "sig": hex::encode(kk.sign(c))})
                }
            };
            list.push(e);
        }
        // the other party of a root hop signs cleanly
        match site {
            Site::HopOldKeys => list.push(forge::sig_entry(key(K_ROOT2), c)),
            Site::HopNewKeys if !case.same_keys => list.push(forge::sig_entry(key(K_ROOT), c)),
            _ => {}
        }
        Some(list)
    };
    let built = s.build_full(&patch, &sigs);
    let d = distinct_valid(case, n);
    Scenario { built, expected_accept: d as u64 >= t, d }
}

fn expected_failed_role(site: Site, unsatisfiable: bool) -> &'static str {
    match site {
        Site::ShippedRootSelf => "trusted-root",
        // the shipped root's own root role cannot be met by its n < t keys: it is the shipped root
        // that is refused, before the hop is looked at
        Site::HopOldKeys if unsatisfiable => "trusted-root",
        Site::HopOldKeys | Site::HopNewKeys => "root",
        Site::Timestamp => "timestamp",
        Site::Snapshot => "snapshot",
        Site::Targets | Site::Deleg1 | Site::Deleg2 => "targets",
    }
}

pub fn prop(case: &Case) -> Outcome {
    let mut o = Outcome::new();
    crate::rt::set_now(crate::rt::t0());
    let sc = build(case);
    let n = case.keys.len();
    let t = case.threshold;
    o.label(format!("site:{:?}", case.site));
    o.label(if sc.expected_accept { "expect-accept" } else { "expect-reject" });
    let dup = {
        let mut ks: Vec<u8> = case
            .sigs
            .iter()
            .filter_map(|s| match s {
                Sig::Valid(k) | Sig::Upper(k) => Some(*k % n.max(1) as u8),
                _ => None,
            })
            .collect();
        let before = ks.len();
        ks.sort_unstable();
        ks.dedup();
        before != ks.len()
    };
    if dup {
        o.label("duplicate-valid-by-one-key");
    }
    if dup && t >= 2 && sc.d < t as usize {
        o.label("duplicates-would-reach-threshold");
    }
    let algs: Vec<Alg> = role_keys(case).iter().map(|i| key(*i).alg).collect();
    if algs.iter().any(|a| *a == Alg::Rsa) {
        o.label("has-rsa");
    }
    if algs.iter().any(|a| *a == Alg::Ecdsa) {
        o.label("has-ecdsa");
    }
    o.nontrivial = t >= 2 || case.sigs.iter().any(|s| !matches!(s, Sig::Valid(_)));
    let mut kinds: Vec<String> = case
        .sigs
        .iter()
        .map(|s| match s {
            Sig::Valid(k) => format!("V{}", *k as usize % n.max(1)),
            Sig::Upper(k) => format!("U{}", *k as usize % n.max(1)),
            Sig::Corrupt(k, _) => format!("C{}", *k as usize % n.max(1)),
            Sig::OtherContent(k) => format!("O{}", *k as usize % n.max(1)),
            Sig::OtherRole => "R".into(),
            Sig::Unknown => "X".into(),
            Sig::Missing => "M".into(),
        })
        .collect();
    kinds.sort();
    o.shape = format!("{:?}|{}|{}|{:?}|{:?}", case.site, n, t, kinds, algs);

    // (a) full update cycle
    let mem = MemTransport::new();
    sc.built.install(&mem);
    let r = forge::load(&mem, &sc.built.shipped(1), &LoadOpts::default());
    let final_root = sc.built.root_bytes.keys().max().copied().unwrap_or(1);
    match (&r, sc.expected_accept) {
        (Ok(repo), true) => {
            if repo.root().signed.version.get() != final_root {
                o.fail(format!(
                    "document meets its threshold ({} distinct valid keys >= {}) but the client stopped at root v{}",
                    sc.d,
                    t,
                    repo.root().signed.version
                ));
            }
        }
        (Ok(_), false) => o.fail(format!(
            "{:?}: accepted although only {} distinct authorized key(s) validly signed and the threshold is {} (signature list {:?})",
            case.site, sc.d, t, case.sigs
        )),
        (Err(e), true) => o.fail(format!(
            "{:?}: rejected although {} distinct authorized keys validly signed and the threshold is {}: {}",
            case.site, sc.d, t, e
        )),
        (Err(e), false) => {
            let cls = classify(e);
            let role = failed_role(e).unwrap_or_default();
            let ok_class = matches!(cls, ErrClass::SigThreshold | ErrClass::VerifyTrusted);
            let unsat = (t as usize) > n;
            if !ok_class || role != expected_failed_role(case.site, unsat) {
                o.fail(format!(
                    "{:?}: expected a signature-threshold rejection of {}, got a different failure: {:?} {}",
                    case.site,
                    expected_failed_role(case.site, unsat),
                    cls,
                    e
                ));
            }
        }
    }
    if o.failed() {
        return o;
    }
    // (b) the public verify_role on the parsed pair must agree
    let parent = &sc.built.docs[parent_doc(case.site)];
    let child = &sc.built.docs[tested_doc(case.site)];
    let direct: Result<(), String> = (|| {
        use tough::schema::{Root, Signed, Snapshot, Targets, Timestamp};
        match case.site {
            Site::ShippedRootSelf | Site::HopOldKeys | Site::HopNewKeys => {
                let p: Signed<Root> = serde_json::from_value(parent.clone()).map_err(|e| format!("parse parent: {e}"))?;
                let c: Signed<Root> = serde_json::from_value(child.clone()).map_err(|e| format!("parse child: {e}"))?;
                p.signed.verify_role(&c).map_err(|e| e.to_string())
            }
            Site::Timestamp => {
                let p: Signed<Root> = serde_json::from_value(parent.clone()).map_err(|e| format!("parse parent: {e}"))?;
                let c: Signed<Timestamp> = serde_json::from_value(child.clone()).map_err(|e| format!("parse child: {e}"))?;
                p.signed.verify_role(&c).map_err(|e| e.to_string())
            }
            Site::Snapshot => {
                let p: Signed<Root> = serde_json::from_value(parent.clone()).map_err(|e| format!("parse parent: {e}"))?;
                let c: Signed<Snapshot> = serde_json::from_value(child.clone()).map_err(|e| format!("parse child: {e}"))?;
                p.signed.verify_role(&c).map_err(|e| e.to_string())
            }
            Site::Targets => {
                let p: Signed<Root> = serde_json::from_value(parent.clone()).map_err(|e| format!("parse parent: {e}"))?;
                let c: Signed<Targets> = serde_json::from_value(child.clone()).map_err(|e| format!("parse child: {e}"))?;
                p.signed.verify_role(&c).map_err(|e| e.to_string())
            }
            Site::Deleg1 | Site::Deleg2 => {
                let p: Signed<Targets> = serde_json::from_value(parent.clone()).map_err(|e| format!("parse parent: {e}"))?;
                let c: Signed<Targets> = serde_json::from_value(child.clone()).map_err(|e| format!("parse child: {e}"))?;
                let d = p.signed.delegations.as_ref().ok_or("parent has no delegations")?;
                d.verify_role(&c, tested_doc(case.site)).map_err(|e| e.to_string())
            }
        }
    })();
    match (direct, sc.expected_accept) {
        (Ok(()), true) => {}
        (Err(e), false) if e.contains("ignature threshold") || e.contains("threshold") => {}
        (Ok(()), false) => o.fail(format!(
            "{:?}: verify_role accepts although only {} distinct authorized key(s) validly signed (threshold {})",
            case.site, sc.d, t
        )),
        (Err(e), _) => o.fail(format!("{:?}: verify_role: unexpected result: {e} (expected accept = {})", case.site, sc.expected_accept)),
    }
    o
}

fn sig_strategy() -> impl Strategy<Value = Sig> {
    prop_oneof![
        5 => (0u8..4).prop_map(Sig::Valid),
        2 => (0u8..4).prop_map(Sig::Upper),
        2 => ((0u8..4), any::<u16>()).prop_map(|(k, b)| Sig::Corrupt(k, b)),
        2 => (0u8..4).prop_map(Sig::OtherContent),
        1 => Just(Sig::OtherRole),
        1 => Just(Sig::Unknown),
        1 => Just(Sig::Missing),
    ]
}

fn key_pick() -> impl Strategy<Value = u8> {
    // ed25519 most of the time; ecdsa and rsa in a minority of cases (rsa signing costs ~1 ms)
    prop_oneof![
        6 => 0u8..3,
        2 => 3u8..7,
        1 => 7u8..10,
    ]
}

fn case_strategy() -> impl Strategy<Value = Case> {
    (
        prop::sample::select(SITES.to_vec()),
        any::<bool>(),
        prop::collection::vec(key_pick(), 1..=4),
        1u8..=4,
        prop::collection::vec(sig_strategy(), 0..=5),
    )
        .prop_map(|(site, consistent, keys, threshold, sigs)| {
            // a third of the hops under new keys change nothing but the threshold
            let same_keys = site == Site::HopNewKeys && (sigs.len() + keys.len()) % 3 == 0;
            let dup_keyids = (sigs.len() + keys.len() + threshold as usize) % 4 == 0;
            Case { site, consistent, keys, threshold, sigs, same_keys, dup_keyids }
        })
}

/// all signature lists of length <= max_len for n role keys (ed25519), thresholds 1..=n
fn enumerate(n: u8, max_len: usize) -> Vec<Case> {
    let mut kinds: Vec<Sig> = Vec::new();
    for k in 0..n {
        kinds.push(Sig::Valid(k));
        kinds.push(Sig::Upper(k));
        kinds.push(Sig::Corrupt(k, 77));
        kinds.push(Sig::OtherContent(k));
    }
    kinds.push(Sig::OtherRole);
    kinds.push(Sig::Unknown);
    kinds.push(Sig::Missing);
    let mut lists: Vec<Vec<Sig>> = vec![vec![]];
    let mut frontier: Vec<Vec<Sig>> = vec![vec![]];
    for _ in 0..max_len {
        let mut next = Vec::new();
        for l in &frontier {
            for k in &kinds {
                let mut x = l.clone();
                x.push(k.clone());
                next.push(x);
            }
        }
        lists.extend(next.iter().cloned());
        frontier = next;
    }
    let mut out = Vec::new();
    for site in SITES {
        for t in 1..=n {
            for l in &lists {
                out.push(Case {
                    site,
                    consistent: (l.len() + t as usize) % 2 == 0,
                    keys: (0..n).collect(),
                    threshold: t,
                    sigs: l.clone(),
                    same_keys: false,
                    // every third list also with each key id of the role listed twice
                    dup_keyids: out.len() % 3 == 0,
                });
                if site == Site::HopNewKeys {
                    let mut c = out.last().unwrap().clone();
                    c.same_keys = true;
                    out.push(c);
                }
            }
        }
    }
    out
}

pub fn check(ctx: &Ctx) -> Vec<PartReport> {
    let mut out = Vec::new();
    let (n_enum, len_enum) = ctx.tier.pick((2u8, 3usize), (2u8, 4usize));
    let mut cases = enumerate(n_enum, len_enum);
    if ctx.tier == crate::engine::Tier::Thorough {
        // three role keys, thresholds 1..3, lists up to length 3
        cases.extend(enumerate(3, 3));
    }
    out.push(run_part(
        ctx,
        PartSpec {
            name: "lists-exhaustive",
            rule: "EXHAUSTIVE: at each of the 8 verification sites (the hop under new keys twice: with replaced root keys, and with the same root keys and only the threshold raised), 2 ed25519 role keys, thresholds 1 and 2, every signature list of length <=3 (quick) / <=4 (thorough; plus 3 keys, thresholds 1..3, lists <=3) over {valid by k, valid by k with upper-case key id, corrupted by k, valid over other content by k (k=0,1), key of another role, unknown key, key id listed but key missing from the table}; in every third case the authorizing document lists each key id of the role twice; each case is a forged repository loaded through RepositoryLoader::load and the parsed documents passed to verify_role. Non-trivial: threshold >=2 or any entry other than a plain valid signature; distinct = (site, n, threshold, multiset of kinds)",
            mode: Mode::Enumerate { cases, complete: true },
            prop: Box::new(prop),
            require: vec![],
        },
    ));
    let n = ctx.cases(20_000, 80_000);
    out.push(run_part(
        ctx,
        PartSpec {
            name: "lists-random",
            rule: "random: site uniform over 8, 1..4 role keys (ed25519 / ecdsa-p256 / rsa-pss mixed), threshold 1..4 (may exceed the number of keys), 0..5 signature entries over the same vocabulary, both consistent-snapshot settings. Same oracle and observations. Non-trivial and distinct as in the exhaustive part (plus the algorithm mix)",
            mode: Mode::Random { cases: n, strategy: Box::new(|| bx(case_strategy())) },
            prop: Box::new(prop),
            require: vec![
                ("expect-accept", n as u64 / 20),
                ("expect-reject", n as u64 / 20),
                ("duplicates-would-reach-threshold", n as u64 / 200),
                ("has-rsa", n as u64 / 50),
                ("has-ecdsa", n as u64 / 50),
                ("site:Deleg2", n as u64 / 40),
            ],
        },
    ));
    out
}

pub fn replay(_ctx: &Ctx, _part: &str, case: &Value) -> Outcome {
    crate::engine::replay_case::<Case>(case, prop)
}
