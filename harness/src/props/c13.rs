//! C13 — a key is only trusted under the identifier that is the digest of its content.
//!
//! Domain: key tables of 1..4 keys (rsa PEM, ed25519 hex, ecdsa PEM / hex-encoded point, both ecdsa
//! key-type spellings), optionally with unknown extra members at key level and at keyval level,
//! placed in the key table of a root document and in the `delegations.keys` table of a targets
//! document; one mutation of one identifier (none, bit flip of the digest, bit flip of one character
//! of the hex text, exchange with another listed key's identifier, copy of another listed key's
//! identifier, truncation, upper-case / mixed-case respelling, the entry listed twice in the same
//! spelling, the entry listed twice once lower-case and once upper-case).
//! The table is written as raw JSON text by hand (a `serde_json::Value` cannot hold one member name
//! twice).
//!
//! Oracle (computed from the case alone, never by asking tough): identifier of a key = SHA-256 of
//! the harness' own canonical JSON (`crate::cjson::canon`) of the key object exactly as it appears in
//! the document (unknown members included). A document is accepted iff every listed identifier,
//! hex-decoded by the harness' own decoder, equals that digest and no two listed identifiers decode
//! to the same bytes. A refusal must carry one of the reasons that apply to the case.
//!
//! Observations: (a) `serde_json::from_slice::<Signed<Root>>` / `::<Signed<Targets>>`; on acceptance
//! the parsed table, `Key::key_id()` of every entry, and the same again after serialise -> parse;
//! (b) for a sample, a forged repository whose shipped root / served 2.root.json / targets.json /
//! delegated d1.json carries the table, loaded with `RepositoryLoader::load` through `MemTransport`
//! (the document is signed after the table was put in); (c) `Key::from_str` and
//! `sign::parse_keypair(..).tuf_key()` for every key of the committed pool: `key_id()` against the
//! independent identifier of the serialised key object, and stability through serialise -> parse of
//! the key and of a whole `Signed<Root>`.

use crate::cjson::{canon, sha256};
use crate::engine::{bx, run_part, Ctx, Mode, Outcome, PartReport, PartSpec};
use crate::forge::{self, classify, DelegNode, ErrClass, LoadOpts, PathSpec, RootSpec, Simple};
use crate::keys::{key, Alg, PoolKey};
use crate::transport::MemTransport;
use proptest::prelude::*;
use serde::{Deserialize, Serialize};
use serde_json::{json, Map, Value};
use std::collections::{BTreeSet, HashMap};
use std::str::FromStr;
use tough::schema::decoded::{Decoded, Hex};
use tough::schema::key::Key;
use tough::schema::{Root, Signed, Targets};

pub fn info() -> super::Info {
    super::Info {
        level: "exploration",
        assumptions: vec![
            "unknown extra members of a key have ASCII names and string / integer / boolean / null / array / object values (canonical JSON cannot express floats)",
            "a refusal counts only when it names a reason that applies to the case: 'Invalid key ID' (identifier is not the digest), 'Duplicate key ID' (identifier listed twice), 'Invalid hex string' (identifier is not hex)",
            "in the full client path the generated keys are listed next to the keys that sign the repository and sign nothing themselves",
            "the committed key pool (12 ed25519, 4 ecdsa-p256, 3 rsa-2048) stands for 'keys the library generates or imports'",
        ],
    }
}

// ------------------------------------------------------------------------------------------------
// case description

#[derive(Clone, Copy, Debug, Serialize, Deserialize, PartialEq, Eq, PartialOrd, Ord)]
pub enum Kind {
    RsaPem,
    Ed25519Hex,
    /// keytype "ecdsa", PEM (SPKI) public key
    EcdsaPem,
    /// keytype "ecdsa-sha2-nistp256", PEM public key
    EcdsaOldPem,
    /// keytype "ecdsa", hex-encoded uncompressed point
    EcdsaHex,
    /// keytype "ecdsa-sha2-nistp256", hex-encoded uncompressed point
    EcdsaOldHex,
}

pub const KINDS: [Kind; 6] =
    [Kind::RsaPem, Kind::Ed25519Hex, Kind::EcdsaPem, Kind::EcdsaOldPem, Kind::EcdsaHex, Kind::EcdsaOldHex];

impl Kind {
    fn default_encoding(self) -> bool {
        matches!(self, Kind::RsaPem | Kind::Ed25519Hex | Kind::EcdsaPem)
    }
    /// pool indices this kind draws from. ed25519 keys 0..4 are reserved for the roles of the
    /// forged repository, so that a generated key object never coincides with a signing key.
    fn pool(self) -> std::ops::Range<usize> {
        match self {
            Kind::RsaPem => crate::keys::RSA,
            Kind::Ed25519Hex => 4..12,
            _ => crate::keys::EC,
        }
    }
}

/// one unknown member: index into the name list of its level, index into the value list
#[derive(Clone, Copy, Debug, Serialize, Deserialize, PartialEq, Eq)]
pub struct Extra(pub u8, pub u8);

const KEY_LEVEL_NAMES: [&str; 6] = ["keyid_hash_algorithms", "x-comment", "a", "zz", "note_1", "Z"];
const KEYVAL_LEVEL_NAMES: [&str; 6] = ["private", "x-origin", "b", "zz", "n", "Y"];

fn extra_value(i: u8) -> Value {
    match i % 8 {
        0 => json!(["sha256", "sha512"]),
        1 => json!("text with spaces"),
        2 => json!(7),
        3 => json!(true),
        4 => Value::Null,
        5 => json!({"k": "v", "n": [1, 2], "A": {"z": false}}),
        6 => json!(""),
        _ => json!(-3),
    }
}

#[derive(Clone, Debug, Serialize, Deserialize, PartialEq, Eq)]
pub struct KeySpec {
    pub kind: Kind,
    /// which pool key of that algorithm (mapped to a key not yet in the table)
    pub pick: u8,
    pub extra_key: Vec<Extra>,
    pub extra_keyval: Vec<Extra>,
}

impl KeySpec {
    pub fn plain(kind: Kind, pick: u8) -> Self {
        KeySpec { kind, pick, extra_key: vec![], extra_keyval: vec![] }
    }
}

#[derive(Clone, Copy, Debug, Serialize, Deserialize, PartialEq, Eq)]
pub enum Mutation {
    None,
    /// one bit of the 32-byte digest flipped, written in lower-case hex
    BitFlip(u16),
    /// one bit (0..6) of one character of the hex text flipped: another digit, not a hex digit at
    /// all, or (bit 5 of a letter) merely the other case
    TextFlip(u8, u8),
    /// identifiers of the target and of another listed key exchanged
    Swap(u8),
    /// the target carries another listed key's identifier (which is thereby listed twice)
    CopyId(u8),
    /// only the first n (0..63) characters of the identifier
    Truncate(u8),
    /// the identifier in upper-case hex
    Upper,
    /// the identifier with every other character in upper-case
    Mixed,
    /// the target's entry a second time, same spelling, inserted at the given position
    DupSame(u8),
    /// the target's entry a second time with the identifier in upper-case
    DupCase(u8),
}

impl Mutation {
    fn kind_name(&self) -> &'static str {
        match self {
            Mutation::None => "none",
            Mutation::BitFlip(_) => "bit-flip",
            Mutation::TextFlip(..) => "text-flip",
            Mutation::Swap(_) => "swap",
            Mutation::CopyId(_) => "copy-id",
            Mutation::Truncate(_) => "truncate",
            Mutation::Upper => "upper-case",
            Mutation::Mixed => "mixed-case",
            Mutation::DupSame(_) => "dup-same-spelling",
            Mutation::DupCase(_) => "dup-other-case",
        }
    }
}

pub const MUTATION_KINDS: [&str; 10] = [
    "none",
    "bit-flip",
    "text-flip",
    "swap",
    "copy-id",
    "truncate",
    "upper-case",
    "mixed-case",
    "dup-same-spelling",
    "dup-other-case",
];

#[derive(Clone, Copy, Debug, Serialize, Deserialize, PartialEq, Eq)]
pub enum Table {
    Root,
    Deleg,
}

#[derive(Clone, Debug, Serialize, Deserialize, PartialEq, Eq)]
pub struct Case {
    pub table: Table,
    /// full client path only. Root: false = the shipped root, true = 2.root.json fetched from the
    /// repository. Deleg: false = targets.json, true = the delegated role file d1.json
    pub alt_site: bool,
    pub keys: Vec<KeySpec>,
    /// which key's identifier is mutated (index modulo the number of keys)
    pub target: u8,
    pub mutation: Mutation,
    /// raw text with line breaks and indentation instead of compact
    pub pretty: bool,
    /// also run the full client path
    pub load: bool,
}

// ------------------------------------------------------------------------------------------------
// building the table

fn base_object(kind: Kind, pk: &PoolKey) -> Value {
    let hexpoint = hex::encode(&pk.raw_public);
    match kind {
        Kind::RsaPem => json!({"keytype": "rsa", "scheme": "rsassa-pss-sha256", "keyval": {"public": pk.pub_pem}}),
        Kind::Ed25519Hex => json!({"keytype": "ed25519", "scheme": "ed25519", "keyval": {"public": hexpoint}}),
        Kind::EcdsaPem => json!({"keytype": "ecdsa", "scheme": "ecdsa-sha2-nistp256", "keyval": {"public": pk.pub_pem}}),
        Kind::EcdsaOldPem => {
            json!({"keytype": "ecdsa-sha2-nistp256", "scheme": "ecdsa-sha2-nistp256", "keyval": {"public": pk.pub_pem}})
        }
        Kind::EcdsaHex => json!({"keytype": "ecdsa", "scheme": "ecdsa-sha2-nistp256", "keyval": {"public": hexpoint}}),
        Kind::EcdsaOldHex => {
            json!({"keytype": "ecdsa-sha2-nistp256", "scheme": "ecdsa-sha2-nistp256", "keyval": {"public": hexpoint}})
        }
    }
}

fn add_extras(obj: &mut Map<String, Value>, names: &[&str; 6], extras: &[Extra]) {
    for Extra(n, v) in extras {
        // distinct member names by construction: advance to the next free name
        let mut i = *n as usize % names.len();
        let mut tries = 0;
        while obj.contains_key(names[i]) && tries < names.len() {
            i = (i + 1) % names.len();
            tries += 1;
        }
        if tries < names.len() {
            obj.insert(names[i].to_string(), extra_value(*v));
        }
    }
}

fn key_object(spec: &KeySpec, pool_idx: usize) -> Value {
    let mut obj = base_object(spec.kind, key(pool_idx));
    add_extras(obj["keyval"].as_object_mut().expect("keyval"), &KEYVAL_LEVEL_NAMES, &spec.extra_keyval);
    add_extras(obj.as_object_mut().expect("key"), &KEY_LEVEL_NAMES, &spec.extra_key);
    obj
}

/// The key objects of the table, pairwise different by construction (another pool key of the same
/// algorithm is taken when the object is already listed; if the algorithm is exhausted a counter
/// member tells the objects apart).
fn key_objects(specs: &[KeySpec]) -> Vec<Value> {
    let mut out: Vec<Value> = Vec::new();
    for spec in specs {
        let range = spec.kind.pool();
        let len = range.len();
        let mut chosen = None;
        for j in 0..len {
            let idx = range.start + (spec.pick as usize + j) % len;
            let obj = key_object(spec, idx);
            if !out.contains(&obj) {
                chosen = Some(obj);
                break;
            }
        }
        let obj = chosen.unwrap_or_else(|| {
            let mut j = 0u64;
            loop {
                let mut obj = key_object(spec, range.start + spec.pick as usize % len);
                obj["serial"] = json!(j);
                if !out.contains(&obj) {
                    break obj;
                }
                j += 1;
            }
        });
        out.push(obj);
    }
    out
}

/// the independent identifier: SHA-256 of the harness' canonical form of the key object
pub fn independent_id(obj: &Value) -> Vec<u8> {
    sha256(&canon(obj).expect("key objects contain no floats"))
}

/// the harness' own hex decoder: even length, digits 0-9 a-f A-F
pub fn unhex(s: &str) -> Option<Vec<u8>> {
    fn nib(c: u8) -> Option<u8> {
        match c {
            b'0'..=b'9' => Some(c - b'0'),
            b'a'..=b'f' => Some(c - b'a' + 10),
            b'A'..=b'F' => Some(c - b'A' + 10),
            _ => None,
        }
    }
    let b = s.as_bytes();
    if b.len() % 2 != 0 {
        return None;
    }
    let mut out = Vec::with_capacity(b.len() / 2);
    for p in b.chunks(2) {
        out.push(nib(p[0])? << 4 | nib(p[1])?);
    }
    Some(out)
}

fn mixed_case(s: &str) -> String {
    s.chars()
        .enumerate()
        .map(|(i, c)| if i % 2 == 0 { c.to_ascii_uppercase() } else { c })
        .collect()
}

#[derive(Clone, Debug)]
pub struct Entry {
    /// the identifier as spelled in the document
    pub id: String,
    pub obj: Value,
    /// SHA-256 of the canonical form of `obj`
    pub digest: Vec<u8>,
    pub kind: Kind,
}

pub struct Built {
    pub entries: Vec<Entry>,
    /// index of the key whose identifier was mutated (before any insertion of a duplicate)
    pub target: usize,
    pub specs: Vec<KeySpec>,
}

/// The listed entries, in document order, after the mutation.
pub fn entries(case: &Case) -> Built {
    let mut specs = case.keys.clone();
    if specs.is_empty() {
        specs.push(KeySpec::plain(Kind::Ed25519Hex, 0));
    }
    specs.truncate(4);
    // an exchange needs a second key: present by construction
    if specs.len() == 1 && matches!(case.mutation, Mutation::Swap(_) | Mutation::CopyId(_)) {
        specs.push(KeySpec::plain(Kind::Ed25519Hex, 0));
    }
    let objs = key_objects(&specs);
    let n = objs.len();
    let mut list: Vec<Entry> = objs
        .into_iter()
        .zip(&specs)
        .map(|(obj, s)| {
            let digest = independent_id(&obj);
            Entry { id: hex::encode(&digest), obj, digest, kind: s.kind }
        })
        .collect();
    let t = case.target as usize % n;
    let other = |o: u8| (t + 1 + o as usize % (n - 1).max(1)) % n;
    match case.mutation {
        Mutation::None => {}
        Mutation::BitFlip(b) => {
            let mut d = list[t].digest.clone();
            let pos = b as usize % (d.len() * 8);
            d[pos / 8] ^= 1 << (pos % 8);
            list[t].id = hex::encode(d);
        }
        Mutation::TextFlip(p, bit) => {
            let mut b = list[t].id.clone().into_bytes();
            let pos = p as usize % b.len();
            b[pos] ^= 1 << (bit % 7);
            list[t].id = String::from_utf8(b).expect("ascii stays ascii");
        }
        Mutation::Swap(o) => {
            let u = other(o);
            let a = list[t].id.clone();
            list[t].id = list[u].id.clone();
            list[u].id = a;
        }
        Mutation::CopyId(o) => {
            let u = other(o);
            list[t].id = list[u].id.clone();
        }
        Mutation::Truncate(l) => {
            let keep = l as usize % list[t].id.len();
            list[t].id.truncate(keep);
        }
        Mutation::Upper => list[t].id = list[t].id.to_uppercase(),
        Mutation::Mixed => list[t].id = mixed_case(&list[t].id),
        Mutation::DupSame(p) => {
            let e = list[t].clone();
            list.insert(p as usize % (n + 1), e);
        }
        Mutation::DupCase(p) => {
            let mut e = list[t].clone();
            e.id = e.id.to_uppercase();
            list.insert(p as usize % (n + 1), e);
        }
    }
    Built { entries: list, target: t, specs }
}

// ------------------------------------------------------------------------------------------------
// oracle

#[derive(Clone, Copy, Debug, PartialEq, Eq, PartialOrd, Ord)]
pub enum Reason {
    /// an identifier is not a hex string
    BadHex,
    /// an identifier decodes to bytes other than the digest of its key
    Mismatch,
    /// two identifiers decode to the same bytes
    Duplicate,
}

impl Reason {
    fn needle(self) -> &'static str {
        match self {
            Reason::BadHex => "Invalid hex string",
            Reason::Mismatch => "Invalid key ID",
            Reason::Duplicate => "Duplicate key ID",
        }
    }
    fn label(self) -> &'static str {
        match self {
            Reason::BadHex => "reason:not-hex",
            Reason::Mismatch => "reason:id-is-not-the-digest",
            Reason::Duplicate => "reason:id-listed-twice",
        }
    }
}

/// Accept iff the returned set is empty.
pub fn oracle(entries: &[Entry]) -> BTreeSet<Reason> {
    let mut reasons = BTreeSet::new();
    let decoded: Vec<Option<Vec<u8>>> = entries.iter().map(|e| unhex(&e.id)).collect();
    for (e, d) in entries.iter().zip(&decoded) {
        match d {
            None => {
                reasons.insert(Reason::BadHex);
            }
            Some(bytes) if *bytes != e.digest => {
                reasons.insert(Reason::Mismatch);
            }
            Some(_) => {}
        }
    }
    for i in 0..decoded.len() {
        for j in 0..i {
            if decoded[i].is_some() && decoded[i] == decoded[j] {
                reasons.insert(Reason::Duplicate);
            }
        }
    }
    reasons
}

fn names_applicable_reason(msg: &str, reasons: &BTreeSet<Reason>) -> bool {
    reasons.iter().any(|r| msg.contains(r.needle()))
}

// ------------------------------------------------------------------------------------------------
// raw text

/// the key table as JSON text, entries in the given order, identifiers possibly repeated
fn raw_table(entries: &[(String, Value)], pretty: bool) -> String {
    let parts: Vec<String> = entries
        .iter()
        .map(|(id, obj)| {
            let k = serde_json::to_string(id).expect("string");
            let v = serde_json::to_string(obj).expect("object");
            if pretty {
                format!("\n      {k} : {v}")
            } else {
                format!("{k}:{v}")
            }
        })
        .collect();
    if pretty {
        format!("{{{}\n    }}", parts.join(","))
    } else {
        format!("{{{}}}", parts.join(","))
    }
}

const PLACEHOLDER: &str = "@@C13-KEY-TABLE@@";

fn splice(doc: &Value, table_text: &str, pretty: bool) -> String {
    let text = if pretty { serde_json::to_string_pretty(doc) } else { serde_json::to_string(doc) }.expect("doc");
    let needle = format!("\"{PLACEHOLDER}\"");
    assert_eq!(text.matches(&needle).count(), 1, "placeholder must occur exactly once");
    text.replace(&needle, table_text)
}

/// root.json / targets.json text whose key table is exactly the listed entries (unsigned: parsing
/// does not look at signatures)
fn document_text(table: Table, entries: &[Entry], pretty: bool) -> String {
    let listed: Vec<(String, Value)> = entries.iter().map(|e| (e.id.clone(), e.obj.clone())).collect();
    let raw = raw_table(&listed, pretty);
    let signed = match table {
        Table::Root => {
            let mut s = forge::root_signed(&RootSpec::basic(1, false));
            s["keys"] = json!(PLACEHOLDER);
            s
        }
        Table::Deleg => {
            let exp = crate::rt::t0() + chrono::Duration::days(365);
            let mut s = forge::targets_signed(1, exp, &[("r/file.txt".to_string(), b"x".to_vec())], &[], &[]);
            let ids: Vec<String> = entries.iter().map(|e| hex::encode(&e.digest)).collect();
            s["delegations"] = json!({
                "keys": PLACEHOLDER,
                "roles": [{"name": "r", "keyids": ids, "threshold": 1, "paths": ["r/*"], "terminating": false}],
            });
            s
        }
    };
    splice(&forge::envelope(signed, vec![]), &raw, pretty)
}

// ------------------------------------------------------------------------------------------------
// observations

fn dec(bytes: &[u8]) -> Decoded<Hex> {
    Decoded::<Hex>::from(bytes.to_vec())
}

/// On acceptance: every listed key is in the parsed table under its digest, `key_id()` returns that
/// digest, the key re-serialises to an object with the same independent identifier, and nothing
/// else is in the table (`others` = number of entries that are not ours).
fn check_table(what: &str, table: &HashMap<Decoded<Hex>, Key>, entries: &[Entry], others: usize) -> Result<(), String> {
    if table.len() != entries.len() + others {
        return Err(format!("{what}: {} keys listed, the parsed table holds {}", entries.len() + others, table.len()));
    }
    for e in entries {
        let idhex = hex::encode(&e.digest);
        let Some(k) = table.get(&dec(&e.digest)) else {
            return Err(format!("{what}: key listed as {} is not in the parsed table under its digest {idhex}", e.id));
        };
        let got = k.key_id().map_err(|x| format!("{what}: key_id() of {idhex} failed: {x}"))?;
        if got.as_ref() != e.digest.as_slice() {
            return Err(format!(
                "{what}: key_id() = {} for the key whose canonical form digests to {idhex}",
                hex::encode(got.as_ref())
            ));
        }
        let back = serde_json::to_value(k).map_err(|x| format!("{what}: key {idhex} does not serialise: {x}"))?;
        let again = independent_id(&back);
        if again != e.digest {
            return Err(format!(
                "{what}: key {idhex} re-serialises to an object that digests to {} ({back})",
                hex::encode(again)
            ));
        }
    }
    Ok(())
}

enum Parsed {
    Root(Signed<Root>),
    Targets(Signed<Targets>),
}

fn parse(table: Table, bytes: &[u8]) -> Result<Parsed, serde_json::Error> {
    match table {
        Table::Root => serde_json::from_slice::<Signed<Root>>(bytes).map(Parsed::Root),
        Table::Deleg => serde_json::from_slice::<Signed<Targets>>(bytes).map(Parsed::Targets),
    }
}

impl Parsed {
    fn keys(&self) -> Result<&HashMap<Decoded<Hex>, Key>, String> {
        match self {
            Parsed::Root(r) => Ok(&r.signed.keys),
            Parsed::Targets(t) => {
                t.signed.delegations.as_ref().map(|d| &d.keys).ok_or_else(|| "parsed targets lost its delegations".into())
            }
        }
    }
    fn to_bytes(&self, pretty: bool) -> Result<Vec<u8>, serde_json::Error> {
        match (self, pretty) {
            (Parsed::Root(r), false) => serde_json::to_vec(r),
            (Parsed::Root(r), true) => serde_json::to_vec_pretty(r),
            (Parsed::Targets(t), false) => serde_json::to_vec(t),
            (Parsed::Targets(t), true) => serde_json::to_vec_pretty(t),
        }
    }
}

fn parse_path(case: &Case, b: &Built, reasons: &BTreeSet<Reason>, o: &mut Outcome) {
    let text = document_text(case.table, &b.entries, case.pretty);
    let what = match case.table {
        Table::Root => "Signed<Root>",
        Table::Deleg => "Signed<Targets>",
    };
    match (parse(case.table, text.as_bytes()), reasons.is_empty()) {
        (Ok(p), true) => {
            let r = p.keys().and_then(|t| check_table(what, t, &b.entries, 0));
            if let Err(e) = r {
                o.fail(e);
                return;
            }
            // serialise -> parse -> serialise -> parse: accepted again, identifiers unchanged
            let mut cur = p;
            for generation in 1..=2 {
                let bytes = match cur.to_bytes(generation == 2) {
                    Ok(x) => x,
                    Err(e) => {
                        o.fail(format!("{what}: accepted document does not serialise (generation {generation}): {e}"));
                        return;
                    }
                };
                cur = match parse(case.table, &bytes) {
                    Ok(x) => x,
                    Err(e) => {
                        o.fail(format!(
                            "{what}: accepted document is refused after serialise -> parse (generation {generation}): {e}"
                        ));
                        return;
                    }
                };
                let r = cur.keys().and_then(|t| check_table(&format!("{what} generation {generation}"), t, &b.entries, 0));
                if let Err(e) = r {
                    o.fail(e);
                    return;
                }
            }
            o.label("reparsed");
        }
        (Ok(_), false) => o.fail(format!(
            "{what}: parsed although {:?} (mutation {:?} of key {}; listed identifiers {:?})",
            reasons,
            case.mutation,
            b.target,
            b.entries.iter().map(|e| e.id.as_str()).collect::<Vec<_>>()
        )),
        (Err(e), true) => o.fail(format!(
            "{what}: refused although every identifier is the digest of its key and none is listed twice (mutation {:?}): {e}",
            case.mutation
        )),
        (Err(e), false) => {
            if !names_applicable_reason(&e.to_string(), reasons) {
                o.fail(format!("{what}: refused, but not for {:?}: {e}", reasons));
            }
        }
    }
}

#[derive(Clone, Copy, Debug, PartialEq, Eq)]
enum Site {
    ShippedRoot,
    HopRoot,
    TopTargets,
    Delegated,
}

fn site(case: &Case) -> Site {
    match (case.table, case.alt_site) {
        (Table::Root, false) => Site::ShippedRoot,
        (Table::Root, true) => Site::HopRoot,
        (Table::Deleg, false) => Site::TopTargets,
        (Table::Deleg, true) => Site::Delegated,
    }
}

fn table_of<'a>(signed: &'a mut Value, t: Table) -> &'a mut Value {
    match t {
        Table::Root => &mut signed["keys"],
        Table::Deleg => &mut signed["delegations"]["keys"],
    }
}

/// (b) the full client path
fn load_path(case: &Case, b: &Built, reasons: &BTreeSet<Reason>, o: &mut Outcome) {
    crate::rt::set_now(crate::rt::t0());
    let site = site(case);
    o.label(format!("loaded:{site:?}"));
    let mut s = Simple::basic(false);
    s.targets = vec![("top.txt".into(), b"top".to_vec())];
    let (role, file) = match site {
        Site::ShippedRoot => ("root:1", "1.root.json"),
        Site::HopRoot => {
            let mut r2 = s.roots[0].clone();
            r2.version = 2;
            s.roots.push(r2);
            ("root:2", "2.root.json")
        }
        Site::TopTargets | Site::Delegated => {
            let mut d1 = DelegNode::new("d1", 0, PathSpec::Paths(vec!["d1/*".into()]));
            d1.targets = vec![("d1/a.txt".into(), b"a".to_vec())];
            if site == Site::Delegated {
                let mut d2 = DelegNode::new("d2", 1, PathSpec::Paths(vec!["d1/d2/*".into()]));
                d2.targets = vec![("d1/d2/b.txt".into(), b"b".to_vec())];
                d1.children = vec![d2];
            }
            s.delegs = vec![d1];
            // the file is rewritten after the snapshot was built: snapshot pins its version only
            s.pin_targets_hash = false;
            s.pin_targets_len = false;
            if site == Site::TopTargets {
                ("targets", "targets.json")
            } else {
                ("d1", "d1.json")
            }
        }
    };
    // What a serde_json::Value can hold of the table: one entry per decoded identifier (first
    // spelling, last key object). The document is signed over this, i.e. it is validly signed for a
    // reader that would overlook the repetition.
    let mut dedup: Vec<(String, Value)> = Vec::new();
    for e in &b.entries {
        let d = unhex(&e.id);
        match dedup.iter_mut().find(|(id, _)| *id == e.id || (d.is_some() && unhex(id) == d)) {
            Some(slot) => slot.1 = e.obj.clone(),
            None => dedup.push((e.id.clone(), e.obj.clone())),
        }
    }
    let table = case.table;
    let patch = |r: &str, signed: &mut Value| {
        if r == role {
            let t = table_of(signed, table).as_object_mut().expect("forged document has a key table");
            for (id, obj) in &dedup {
                t.insert(id.clone(), obj.clone());
            }
        }
    };
    let mut built = s.build_full(&patch, &|_, _, _| None);
    // rewrite the table of the served file as raw text: the signing keys' entries, then (or
    // preceded by) the listed entries in document order, repetitions included
    let mut signed = built.docs[role]["signed"].clone();
    let value_table = table_of(&mut signed, table).clone();
    let needle = serde_json::to_string(&value_table).expect("table");
    let ours: BTreeSet<&str> = dedup.iter().map(|(id, _)| id.as_str()).collect();
    let base: Vec<(String, Value)> = value_table
        .as_object()
        .expect("table")
        .iter()
        .filter(|(id, _)| !ours.contains(id.as_str()))
        .map(|(id, v)| (id.clone(), v.clone()))
        .collect();
    let listed: Vec<(String, Value)> = b.entries.iter().map(|e| (e.id.clone(), e.obj.clone())).collect();
    let all: Vec<(String, Value)> = if case.pretty {
        listed.iter().chain(base.iter()).cloned().collect()
    } else {
        base.iter().chain(listed.iter()).cloned().collect()
    };
    let text = String::from_utf8(built.meta[file].clone()).expect("utf-8");
    assert_eq!(text.matches(&needle).count(), 1, "key table text must occur exactly once in {file}");
    let bytes = text.replace(&needle, &raw_table(&all, false)).into_bytes();
    built.meta.insert(file.to_string(), bytes.clone());
    if site == Site::ShippedRoot {
        built.root_bytes.insert(1, bytes);
    }
    let mem = MemTransport::new();
    built.install(&mem);
    let r = forge::load(&mem, &built.shipped(1), &LoadOpts::default());
    match (&r, reasons.is_empty()) {
        (Ok(repo), true) => {
            let want_root = if site == Site::HopRoot { 2 } else { 1 };
            if repo.root().signed.version.get() != want_root {
                o.fail(format!("{site:?}: loaded, but the client trusts root v{} instead of v{want_root}", repo.root().signed.version));
                return;
            }
            let t: Result<&HashMap<Decoded<Hex>, Key>, String> = match site {
                Site::ShippedRoot | Site::HopRoot => Ok(&repo.root().signed.keys),
                Site::TopTargets => repo
                    .targets()
                    .signed
                    .delegations
                    .as_ref()
                    .map(|d| &d.keys)
                    .ok_or_else(|| "loaded targets has no delegations".to_string()),
                Site::Delegated => repo
                    .targets()
                    .signed
                    .delegations
                    .as_ref()
                    .and_then(|d| d.roles.iter().find(|r| r.name == "d1"))
                    .and_then(|r| r.targets.as_ref())
                    .and_then(|t| t.signed.delegations.as_ref())
                    .map(|d| &d.keys)
                    .ok_or_else(|| "loaded d1 has no delegations".to_string()),
            };
            if let Err(e) = t.and_then(|t| check_table(&format!("{site:?} after load"), t, &b.entries, base.len())) {
                o.fail(e);
            }
        }
        (Ok(_), false) => o.fail(format!(
            "{site:?}: repository loaded although its key table has {:?} (mutation {:?}; listed identifiers {:?})",
            reasons,
            case.mutation,
            b.entries.iter().map(|e| e.id.as_str()).collect::<Vec<_>>()
        )),
        (Err(e), true) => o.fail(format!(
            "{site:?}: repository refused although every identifier is the digest of its key and none is listed twice (mutation {:?}): {:?} {e}",
            case.mutation,
            classify(e)
        )),
        (Err(e), false) => {
            let cls = classify(e);
            let want = if site == Site::ShippedRoot { ErrClass::ParseTrusted } else { ErrClass::ParseMetadata };
            if cls != want || !names_applicable_reason(&e.to_string(), reasons) {
                o.fail(format!("{site:?}: expected a {want:?} refusal for {:?}, got {cls:?}: {e}", reasons));
            }
        }
    }
}

pub fn prop(case: &Case) -> Outcome {
    let mut o = Outcome::new();
    let b = entries(case);
    let reasons = oracle(&b.entries);
    let accept = reasons.is_empty();
    let n = b.specs.len();

    o.label(match case.table {
        Table::Root => "table:root",
        Table::Deleg => "table:delegations",
    });
    o.label(format!("mutation:{}", case.mutation.kind_name()));
    o.label(if accept { "expect-accept" } else { "expect-reject" });
    for r in &reasons {
        o.label(r.label());
    }
    o.label(format!("keys:{n}"));
    o.label(format!("target-kind:{:?}", b.specs[b.target].kind));
    for s in &b.specs {
        o.label(format!("has:{:?}", s.kind));
    }
    let tspec = &b.specs[b.target];
    if b.specs.iter().any(|s| !s.extra_key.is_empty()) {
        o.label("extras:key-level");
    }
    if b.specs.iter().any(|s| !s.extra_keyval.is_empty()) {
        o.label("extras:keyval-level");
    }
    if !tspec.extra_key.is_empty() || !tspec.extra_keyval.is_empty() {
        o.label("extras:on-mutated-key");
    }
    if matches!(case.mutation, Mutation::TextFlip(..)) {
        o.label(if accept { "text-flip:case-only" } else { "text-flip:other-value" });
    }
    if case.pretty {
        o.label("text:spaced");
    }
    let has_extras = b.specs.iter().any(|s| !s.extra_key.is_empty() || !s.extra_keyval.is_empty());
    let non_default = b.specs.iter().any(|s| !s.kind.default_encoding());
    o.nontrivial = case.mutation != Mutation::None || has_extras || non_default;
    let mut kinds: Vec<String> = b
        .specs
        .iter()
        .map(|s| format!("{:?}+{}+{}", s.kind, s.extra_key.len(), s.extra_keyval.len()))
        .collect();
    let tk = kinds[b.target].clone();
    kinds.sort();
    let coarse = match case.mutation {
        Mutation::BitFlip(x) => format!("bit-flip@{}", (x % 256) / 64),
        Mutation::TextFlip(p, bit) => format!("text-flip@{}b{}", (p % 64) / 16, bit % 7),
        Mutation::Truncate(l) => format!("truncate@{}{}", (l % 64) / 16, if l % 2 == 1 { "odd" } else { "even" }),
        Mutation::DupSame(p) => format!("dup-same@{}", p as usize % (n + 1)),
        Mutation::DupCase(p) => format!("dup-case@{}", p as usize % (n + 1)),
        m => m.kind_name().to_string(),
    };
    o.shape = format!(
        "{:?}|{}|{}|{}|{:?}|{}|{}",
        case.table,
        if case.load { format!("load{}", case.alt_site as u8) } else { "parse".into() },
        coarse,
        tk,
        kinds,
        case.pretty,
        accept
    );

    parse_path(case, &b, &reasons, &mut o);
    if o.failed() {
        return o;
    }
    if case.load {
        o.label("loaded");
        load_path(case, &b, &reasons, &mut o);
    }
    o
}

// ------------------------------------------------------------------------------------------------
// (c) imports

#[derive(Clone, Copy, Debug, Serialize, Deserialize, PartialEq, Eq)]
pub enum Route {
    /// `Key::from_str` on the usual text: trimmed PEM (rsa, ecdsa), lower-case hex (ed25519)
    FromStr,
    /// `Key::from_str` on another spelling of the same key: the PEM file as it is on disk (trailing
    /// line break), upper-case hex
    FromStrAlt,
    /// `sign::parse_keypair(private key file).tuf_key()`
    Keypair,
}

#[derive(Clone, Debug, Serialize, Deserialize, PartialEq, Eq)]
pub struct ImportCase {
    pub pool: u8,
    pub route: Route,
}

fn stable(k: &Key, o: &mut Outcome) -> Result<(), String> {
    let id = k.key_id().map_err(|e| format!("key_id() failed: {e}"))?;
    let idb = id.as_ref().to_vec();
    let idhex = hex::encode(&idb);
    let obj = serde_json::to_value(k).map_err(|e| format!("key does not serialise: {e}"))?;
    let indep = independent_id(&obj);
    if indep != idb {
        return Err(format!(
            "key_id() = {idhex}, but the serialised key {obj} has the canonical-form digest {}",
            hex::encode(indep)
        ));
    }
    // the key alone: serialise -> parse -> key_id()
    let text = serde_json::to_string(k).map_err(|e| format!("key does not serialise: {e}"))?;
    let k2: Key = serde_json::from_str(&text).map_err(|e| format!("serialised key {text} does not parse: {e}"))?;
    let id2 = k2.key_id().map_err(|e| format!("key_id() after serialise -> parse failed: {e}"))?;
    if id2.as_ref() != idb.as_slice() {
        return Err(format!("key_id() changed from {idhex} to {} by serialise -> parse of {text}", hex::encode(id2.as_ref())));
    }
    let obj2 = serde_json::to_value(&k2).map_err(|e| format!("re-parsed key does not serialise: {e}"))?;
    if independent_id(&obj2) != idb {
        return Err(format!("serialise -> parse -> serialise changed the key object from {obj} to {obj2}"));
    }
    // inside a whole Signed<Root>
    let mut keys = HashMap::new();
    keys.insert(id.clone(), k.clone());
    let mut roles = HashMap::new();
    for r in [
        tough::schema::RoleType::Root,
        tough::schema::RoleType::Timestamp,
        tough::schema::RoleType::Snapshot,
        tough::schema::RoleType::Targets,
    ] {
        roles.insert(
            r,
            tough::schema::RoleKeys { keyids: vec![id.clone()], threshold: std::num::NonZeroU64::new(1).unwrap(), _extra: HashMap::new() },
        );
    }
    let root = Signed {
        signed: Root {
            spec_version: "1.0.0".into(),
            consistent_snapshot: true,
            version: std::num::NonZeroU64::new(1).unwrap(),
            expires: crate::rt::t0(),
            keys,
            roles,
            _extra: HashMap::new(),
        },
        signatures: vec![],
    };
    let mut cur = root;
    for generation in 1..=2 {
        let bytes = if generation == 1 { serde_json::to_vec_pretty(&cur) } else { serde_json::to_vec(&cur) }
            .map_err(|e| format!("Signed<Root> does not serialise: {e}"))?;
        cur = serde_json::from_slice::<Signed<Root>>(&bytes).map_err(|e| {
            format!("a root listing the key under its key_id() {idhex} is refused after serialise -> parse (generation {generation}): {e}")
        })?;
        if cur.signed.keys.len() != 1 {
            return Err(format!("generation {generation}: {} keys in the table", cur.signed.keys.len()));
        }
        let (pid, pk) = cur.signed.keys.iter().next().unwrap();
        let again = pk.key_id().map_err(|e| format!("key_id() failed in generation {generation}: {e}"))?;
        if pid.as_ref() != idb.as_slice() || again.as_ref() != idb.as_slice() {
            return Err(format!(
                "generation {generation}: listed as {}, key_id() = {}, originally {idhex}",
                hex::encode(pid.as_ref()),
                hex::encode(again.as_ref())
            ));
        }
        // and the document text names the identifier the independent computation gives
        let v: Value = serde_json::from_slice(&bytes).map_err(|e| format!("serialised root is not JSON: {e}"))?;
        let listed = v["signed"]["keys"].as_object().ok_or("serialised root has no key table")?;
        for (lid, lobj) in listed {
            if unhex(lid).as_deref() != Some(independent_id(lobj).as_slice()) {
                return Err(format!("generation {generation}: serialised root lists {lobj} under {lid}"));
            }
        }
    }
    o.label("root-round-trip");
    Ok(())
}

pub fn import_prop(c: &ImportCase) -> Outcome {
    let mut o = Outcome::new();
    let pk = key(c.pool as usize);
    o.label(format!("alg:{:?}", pk.alg));
    o.label(format!("route:{:?}", c.route));
    o.nontrivial = true;
    o.shape = format!("{}|{:?}", pk.name, c.route);
    let imported: Result<Key, String> = match c.route {
        Route::FromStr | Route::FromStrAlt => {
            let alt = c.route == Route::FromStrAlt;
            let text = match (pk.alg, alt) {
                (Alg::Ed25519, false) => hex::encode(&pk.raw_public),
                (Alg::Ed25519, true) => hex::encode_upper(&pk.raw_public),
                (_, false) => pk.pub_pem.clone(),
                (_, true) => std::fs::read_to_string(crate::keys::keys_dir().join(format!("{}.pub.pem", pk.name)))
                    .expect("public key file of the pool"),
            };
            Key::from_str(&text).map_err(|e| e.to_string())
        }
        Route::Keypair => {
            let bytes = std::fs::read(&pk.priv_path).expect("private key file of the pool");
            tough::sign::parse_keypair(&bytes).map(|s| tough::sign::Sign::tuf_key(&s)).map_err(|e| e.to_string())
        }
    };
    let k = match imported {
        Ok(k) => k,
        Err(e) => {
            // not a statement about identifiers; the `require` minimum on "imported" turns a
            // systematic import failure into harness trouble instead of a silent pass
            o.label(format!("import-failed: {e}"));
            return o;
        }
    };
    o.label("imported");
    let type_ok = matches!(
        (&k, pk.alg),
        (Key::Rsa { .. }, Alg::Rsa) | (Key::Ed25519 { .. }, Alg::Ed25519) | (Key::Ecdsa { .. }, Alg::Ecdsa) | (Key::EcdsaOld { .. }, Alg::Ecdsa)
    );
    if !type_ok {
        o.label("imported-as-another-type");
    }
    if let Ok(id) = k.key_id() {
        if hex::encode(id.as_ref()) == pk.keyid {
            o.label("same-id-as-the-forge-object");
        }
    }
    if let Err(e) = stable(&k, &mut o) {
        o.fail(format!("{} via {:?}: {e}", pk.name, c.route));
    }
    o
}

// ------------------------------------------------------------------------------------------------
// generators

fn extras_strategy() -> impl Strategy<Value = Vec<Extra>> {
    prop_oneof![
        3 => Just(vec![]),
        2 => prop::collection::vec((0u8..6, 0u8..8).prop_map(|(n, v)| Extra(n, v)), 1..=2),
    ]
}

fn keyspec_strategy() -> impl Strategy<Value = KeySpec> {
    (prop::sample::select(KINDS.to_vec()), 0u8..12, extras_strategy(), extras_strategy())
        .prop_map(|(kind, pick, extra_key, extra_keyval)| KeySpec { kind, pick, extra_key, extra_keyval })
}

fn mutation_strategy() -> impl Strategy<Value = Mutation> {
    prop_oneof![
        2 => Just(Mutation::None),
        3 => (0u16..256).prop_map(Mutation::BitFlip),
        3 => ((0u8..64), (0u8..7)).prop_map(|(p, b)| Mutation::TextFlip(p, b)),
        2 => (0u8..3).prop_map(Mutation::Swap),
        1 => (0u8..3).prop_map(Mutation::CopyId),
        2 => (0u8..64).prop_map(Mutation::Truncate),
        2 => Just(Mutation::Upper),
        1 => Just(Mutation::Mixed),
        2 => (0u8..5).prop_map(Mutation::DupSame),
        2 => (0u8..5).prop_map(Mutation::DupCase),
    ]
}

fn case_strategy() -> impl Strategy<Value = Case> {
    (
        prop::sample::select(vec![Table::Root, Table::Deleg]),
        any::<bool>(),
        prop::collection::vec(keyspec_strategy(), 1..=4),
        0u8..4,
        mutation_strategy(),
        any::<bool>(),
        prop::bool::weighted(0.5),
    )
        .prop_map(|(table, alt_site, keys, target, mutation, pretty, load)| Case {
            table,
            alt_site,
            keys,
            target,
            mutation,
            pretty,
            load,
        })
}

fn grid_mutations() -> Vec<Mutation> {
    let mut v = vec![Mutation::None];
    for b in [0u16, 7, 128, 255] {
        v.push(Mutation::BitFlip(b));
    }
    // bit 5 of every 8th character: the other case where the character is a letter
    for p in [0u8, 8, 16, 24, 32, 40, 48, 56, 63] {
        v.push(Mutation::TextFlip(p, 5));
    }
    for (p, b) in [(0u8, 0u8), (31, 6), (63, 1), (5, 4)] {
        v.push(Mutation::TextFlip(p, b));
    }
    v.push(Mutation::Swap(0));
    v.push(Mutation::CopyId(0));
    for l in [0u8, 1, 2, 32, 62, 63] {
        v.push(Mutation::Truncate(l));
    }
    v.push(Mutation::Upper);
    v.push(Mutation::Mixed);
    for p in 0..3u8 {
        v.push(Mutation::DupSame(p));
        v.push(Mutation::DupCase(p));
    }
    v
}

/// every mutation instance x every key kind for the mutated key x both tables x both sites of the
/// client path x {no, key-level, keyval-level, both} extra members; two keys per table, the second
/// of the next kind
fn grid(targets: &[u8]) -> Vec<Case> {
    let mut out = Vec::new();
    let extra_patterns: [(Vec<Extra>, Vec<Extra>); 4] = [
        (vec![], vec![]),
        (vec![Extra(0, 0)], vec![]),
        (vec![], vec![Extra(0, 6)]),
        (vec![Extra(1, 5), Extra(3, 2)], vec![Extra(1, 1)]),
    ];
    for table in [Table::Root, Table::Deleg] {
        for alt_site in [false, true] {
            for (ki, kind) in KINDS.iter().enumerate() {
                for (ek, ev) in &extra_patterns {
                    for m in grid_mutations() {
                        for t in targets {
                            let first = KeySpec { kind: *kind, pick: 0, extra_key: ek.clone(), extra_keyval: ev.clone() };
                            let second = KeySpec::plain(KINDS[(ki + 1) % KINDS.len()], 1);
                            let keys = if *t == 0 { vec![first, second] } else { vec![second, first] };
                            out.push(Case {
                                table,
                                alt_site,
                                keys,
                                target: *t,
                                mutation: m,
                                pretty: (out.len() % 2) == 1,
                                load: true,
                            });
                        }
                    }
                }
            }
        }
    }
    out
}

pub fn check(ctx: &Ctx) -> Vec<PartReport> {
    let mut out = Vec::new();

    let cases = grid(ctx.tier.pick(&[0u8][..], &[0u8, 1][..]));
    let n_grid = cases.len() as u64;
    out.push(run_part(
        ctx,
        PartSpec {
            name: "tables-grid",
            rule: "EXHAUSTIVE grid: {root key table, delegations.keys} x {both sites of the client path: shipped root / 2.root.json, targets.json / delegated d1.json} x kind of the mutated key {rsa PEM, ed25519 hex, ecdsa PEM, ecdsa-sha2-nistp256 PEM, ecdsa hex point, ecdsa-sha2-nistp256 hex point} x {no extra members, key-level, keyval-level, both} x 34 mutation instances {none; digest bit 0/7/128/255 flipped; text bit 5 of characters 0,8,..,56,63 flipped (other case if a letter) and 4 other text bits; identifiers of the two keys exchanged; the other key's identifier copied; truncated to 0/1/2/32/62/63 characters; upper-case; mixed-case; the entry repeated at position 0/1/2 in the same spelling and in upper-case}; tables of two keys, the second of the next kind (thorough: the mutated key first and second). Every case is parsed (from_slice of hand-written text, repeated member names included), re-serialised and re-parsed twice when accepted, and loaded as a forged repository signed after the table was put in. Non-trivial: a mutation other than none, or extra members, or an encoding other than rsa PEM / ed25519 hex / keytype ecdsa PEM; distinct = (table, site, mutation with coarse position, kinds and number of extra members, text style, verdict)",
            mode: Mode::Enumerate { cases, complete: true },
            prop: Box::new(prop),
            require: vec![
                ("loaded", n_grid),
                ("expect-accept", n_grid / 20),
                ("expect-reject", n_grid / 3),
                ("reparsed", n_grid / 20),
                ("reason:id-listed-twice", n_grid / 20),
                ("reason:not-hex", n_grid / 40),
                ("text-flip:case-only", 1),
            ],
        },
    ));

    let n = ctx.cases(20_000, 300_000);
    let n64 = n as u64;
    let mut require: Vec<(&str, u64)> = vec![
        ("table:root", n64 / 4),
        ("table:delegations", n64 / 4),
        ("expect-accept", n64 / 8),
        ("expect-reject", n64 / 4),
        ("reparsed", n64 / 8),
        ("loaded", n64 / 6),
        ("loaded:ShippedRoot", n64 / 40),
        ("loaded:HopRoot", n64 / 40),
        ("loaded:TopTargets", n64 / 40),
        ("loaded:Delegated", n64 / 40),
        ("reason:id-is-not-the-digest", n64 / 8),
        ("reason:id-listed-twice", n64 / 10),
        ("reason:not-hex", n64 / 40),
        ("extras:key-level", n64 / 5),
        ("extras:keyval-level", n64 / 5),
        ("extras:on-mutated-key", n64 / 5),
        ("text-flip:case-only", n64 / 400),
        ("keys:1", n64 / 10),
        ("keys:4", n64 / 10),
    ];
    let mut_labels: Vec<String> = MUTATION_KINDS.iter().map(|m| format!("mutation:{m}")).collect();
    for l in &mut_labels {
        require.push((l.as_str(), n64 / 40));
    }
    let kind_labels: Vec<String> = KINDS.iter().map(|k| format!("target-kind:{k:?}")).collect();
    for l in &kind_labels {
        require.push((l.as_str(), n64 / 12));
    }
    out.push(run_part(
        ctx,
        PartSpec {
            name: "tables-random",
            rule: "random: table uniform over {root, delegations}, 1..4 pairwise different keys of uniformly chosen kinds (the same key material may appear under two spellings), 0..2 unknown members at key level and at keyval level per key (40 % each), the mutated key uniform, one mutation drawn from the ten kinds with random position / partner / length, compact or spaced text; half of the cases are also loaded as a forged repository (site uniform over the two sites of the table). Same oracle and observations as the grid. Non-trivial and distinct as in the grid",
            mode: Mode::Random { cases: n, strategy: Box::new(|| bx(case_strategy())) },
            prop: Box::new(prop),
            require,
        },
    ));

    let mut imports = Vec::new();
    for pool in 0..crate::keys::POOL_LEN as u8 {
        for route in [Route::FromStr, Route::FromStrAlt, Route::Keypair] {
            imports.push(ImportCase { pool, route });
        }
    }
    let n_imp = imports.len() as u64;
    out.push(run_part(
        ctx,
        PartSpec {
            name: "imports",
            rule: "EXHAUSTIVE over the committed pool (12 ed25519, 4 ecdsa-p256, 3 rsa-2048 keys) x {Key::from_str on trimmed PEM / lower-case hex, Key::from_str on the PEM file with its trailing line break / upper-case hex, sign::parse_keypair(private key).tuf_key()}: key_id() equals the SHA-256 of the harness' canonical form of the serialised key object; unchanged by serialise -> parse of the key; a Signed<Root> listing the key under key_id() parses after serialise (pretty, then compact), lists the same identifier and the parsed key's key_id() is unchanged, twice in a row. Every case is non-trivial; distinct = (key, route)",
            mode: Mode::Enumerate { cases: imports, complete: true },
            prop: Box::new(import_prop),
            require: vec![
                ("imported", n_imp * 5 / 6),
                ("root-round-trip", n_imp * 5 / 6),
                ("route:FromStr", n_imp / 3),
                ("route:Keypair", n_imp / 3),
                ("alg:Rsa", 9),
                ("alg:Ecdsa", 12),
                ("alg:Ed25519", 36),
            ],
        },
    ));
    if ctx.tier == crate::engine::Tier::Thorough && !ctx.stop.load(std::sync::atomic::Ordering::Relaxed) {
        out.push(crate::fuzz::run(ctx, "C13", "key_id", (1_000_000f64 * ctx.scale) as u64, 2048));
    }
    out
}

pub fn replay(_ctx: &Ctx, part: &str, case: &Value) -> Outcome {
    if let Some(t) = part.strip_prefix("fuzz:") {
        return crate::fuzz::replay(t, case["input_hex"].as_str().unwrap_or(""));
    }
    match part {
        "imports" => crate::engine::replay_case::<ImportCase>(case, import_prop),
        _ => crate::engine::replay_case::<Case>(case, prop),
    }
}
