//! C16 — delegated role names never steer file access outside the metadata directories, nor collide.
//!
//! A case is one repository's worth of delegated role names (up to ~120, all delegated directly by
//! the top-level targets role, no targets of their own) plus the consistent-snapshot flag. The same
//! names are pushed through the four places where tough turns a role name into a file name:
//!
//!   1. `url`       the URLs the client requests while loading (and again while caching) a forged
//!                  repository through the logging `MemTransport`;
//!   2. `datastore` the files `RepositoryLoader::load` leaves in its datastore directory;
//!   3. `cache`     the files `Repository::cache_metadata` writes;
//!   4. `editor`    the files `RepositoryEditor::delegate_role .. sign .. SignedRepository::write`
//!                  writes.
//!
//! Oracle, per name and place: the file is a plain entry directly inside the respective directory
//! (URL: exactly one path segment below the metadata base, no `/ \ ? #`, not `.`/`..`; disk: the
//! recursive listing of a sandbox around the directory gains nothing but regular files directly
//! inside the directory and nothing else in the sandbox changes). Injectivity: over everything the
//! run has seen (one map shared by all cases and parts) a file name never belongs to two different
//! role names (to two different (version, name) pairs under consistent snapshots). "Cannot be served
//! as another's": every role's document carries a marker with its own name (forge) / a unique
//! expiry (editor) and the loaded repository must hold exactly that document under that name.
//! URL == on-disk name: what `cache_metadata` and the editor wrote is loaded back through the real
//! `FilesystemTransport`, which opens the URL path without percent-decoding.
//!
//! The oracle never consults tough's (or the forge's) encoder: requests are attributed to roles by
//! their order (the client fetches delegated roles in listed order), files by their content.
//! A write error from the datastore, the cache or the editor is a violation: all directories are
//! fresh and writable and every name is short enough (see `MAX_NAME_BYTES`), so a plain entry can
//! always be created; only a file name that is not a plain entry can fail.

use crate::engine::{bx, run_part, Ctx, Mode, Outcome, PartReport, PartSpec};
use crate::forge::{self, classify, DelegNode, LoadOpts, PathSpec, Simple};
use crate::keys::key;
use crate::rt::{block_on, t0};
use crate::transport::{meta_url, targets_url, MemTransport, META_BASE};
use chrono::{DateTime, Duration, Utc};
use proptest::prelude::*;
use serde::{Deserialize, Serialize};
use serde_json::{json, Value};
use std::collections::hash_map::DefaultHasher;
use std::collections::{BTreeMap, HashMap, HashSet};
use std::hash::{Hash, Hasher};
use std::num::NonZeroU64;
use std::path::Path;
use bytes::Bytes;
use futures::stream::Stream;
use std::pin::Pin;
use std::sync::atomic::{AtomicBool, Ordering};
use std::sync::{Arc, Mutex};
use tough::{async_trait, Transport, TransportError, TransportErrorKind};
use tough::key_source::{KeySource, LocalKeySource};
use tough::schema::{PathPattern, PathSet};
use url::Url;

pub fn info() -> super::Info {
    super::Info {
        level: "exploration",
        assumptions: vec![
            "role names within one repository are pairwise different and differ from the file stems tough itself uses in the same directories: root, snapshot, targets, timestamp, <digits>.<one of these>, latest_known_time (a TUF precondition; what happens otherwise is recorded by the part 'outside-domain-notes', never judged)",
            "names are NUL-free and at most 82 UTF-8 bytes long, so that the percent-encoded file name (3 bytes per byte, a version prefix and '.json') stays within NAME_MAX = 255; longer names make the operating system refuse the file (observed as an error, noted, not judged)",
            "multi-byte characters come from the forge's NFC-inert set (2-, 3- and 4-byte characters: é ü ö ß ø ñ Ω ж 中 文 € 🍺) because the forge signs its own canonical JSON without a normaliser",
            "the empty role name is inside the domain (tough maps it to '.json' / '<version>..json', a plain hidden file)",
            "all roles are delegated directly by the top-level targets role; nesting does not change how a name becomes a file name",
            "directories are on a case-sensitive Unix file system",
            "a cross-case collision found through the shared injectivity map names both role names in its message; the replay file holds only the later case (short names are ordered by their percent-decoded form so that spellings of one another share a case)",
        ],
    }
}

// ---------------------------------------------------------------------------------------------
// domain

/// the enumeration alphabet of the design
const ALPHA: [char; 13] = ['a', '/', '\\', '.', '%', '?', '#', ':', ' ', '\u{1}', 'é', '2', 'F'];
/// multi-byte characters the forge can sign (its NFC-inert set)
const MULTI: [char; 12] = ['é', 'ü', 'ö', 'ß', 'ø', 'ñ', 'Ω', 'ж', '中', '文', '€', '🍺'];
const MAX_NAME_BYTES: usize = 82;
const MAX_ROLES: usize = 150;
const PACK: usize = 120;

#[derive(Clone, Debug, Serialize, Deserialize, PartialEq, Eq)]
pub struct Case {
    pub consistent: bool,
    /// (role name, version 1..=3)
    pub roles: Vec<(String, u8)>,
}

#[derive(Clone, Debug)]
struct Role {
    name: String,
    version: u64,
}

fn reserved(n: &str) -> bool {
    const TOP: [&str; 4] = ["root", "snapshot", "targets", "timestamp"];
    if TOP.contains(&n) || n == "latest_known_time" {
        return true;
    }
    if let Some((d, rest)) = n.split_once('.') {
        if !d.is_empty() && d.bytes().all(|b| b.is_ascii_digit()) && TOP.contains(&rest) {
            return true;
        }
    }
    false
}

fn signable(n: &str) -> bool {
    n.chars().all(|c| (c as u32) < 0x80 || MULTI.contains(&c))
}

/// The statement's non-trivial rule.
fn nontrivial_name(n: &str) -> bool {
    n == "." || n == ".." || n.chars().any(|c| !(c.is_ascii_alphanumeric() || matches!(c, '_' | '.' | '~' | '-')))
}

/// The roles of a case that lie inside the quantified domain (met by construction in the
/// generators; shrunk and hand-written cases are normalised here).
fn effective(case: &Case, o: &mut Outcome) -> Vec<Role> {
    let mut seen = HashSet::new();
    let mut out = Vec::new();
    for (n, v) in &case.roles {
        if reserved(n) {
            o.label("dropped:reserved-name");
        } else if n.contains('\0') || !signable(n) || n.len() > MAX_NAME_BYTES {
            o.label("dropped:outside-alphabet-or-too-long");
        } else if !seen.insert(n.clone()) {
            o.label("dropped:duplicate-name");
        } else if out.len() < MAX_ROLES {
            out.push(Role { name: n.clone(), version: (*v).clamp(1, 3) as u64 });
        }
    }
    out
}

// ---------------------------------------------------------------------------------------------
// shared injectivity map

const P_URL: u8 = 0;
const P_DS: u8 = 1;
const P_CACHE: u8 = 2;
const P_EDITOR: u8 = 3;
const PLACE: [&str; 4] = ["requested URL", "datastore file", "cache_metadata file", "editor-written file"];

/// (place, consistent, file name) -> (version or 0, role name)
type Seen = Mutex<HashMap<(u8, bool, String), (u64, String)>>;

fn record(seen: &Seen, place: u8, consistent: bool, file: &str, r: &Role) -> Result<(), String> {
    let owner = (if consistent { r.version } else { 0 }, r.name.clone());
    let mut m = seen.lock().unwrap();
    match m.get(&(place, consistent, file.to_string())) {
        Some(prev) if *prev != owner => Err(format!(
            "not injective ({}, consistent_snapshot={consistent}): role {:?}{} and role {:?}{} both map to the file name {file:?}",
            PLACE[place as usize],
            prev.1,
            if consistent { format!(" v{}", prev.0) } else { String::new() },
            owner.1,
            if consistent { format!(" v{}", owner.0) } else { String::new() },
        )),
        Some(_) => Ok(()),
        None => {
            m.insert((place, consistent, file.to_string()), owner);
            Ok(())
        }
    }
}

// ---------------------------------------------------------------------------------------------
// observation helpers

/// Recursive listing of a sandbox: relative path -> (kind, content hash for regular files).
fn tree(root: &Path) -> BTreeMap<String, (char, u64)> {
    fn walk(base: &Path, dir: &Path, out: &mut BTreeMap<String, (char, u64)>) {
        let Ok(rd) = std::fs::read_dir(dir) else { return };
        for e in rd.flatten() {
            let p = e.path();
            let rel = p.strip_prefix(base).unwrap_or(&p).to_string_lossy().into_owned();
            let (k, h) = match std::fs::symlink_metadata(&p) {
                Ok(m) if m.file_type().is_dir() => ('d', 0),
                Ok(m) if m.file_type().is_file() => {
                    let mut hs = DefaultHasher::new();
                    std::fs::read(&p).unwrap_or_default().hash(&mut hs);
                    ('f', hs.finish())
                }
                Ok(_) => ('o', 0),
                Err(_) => ('?', 0),
            };
            out.insert(rel, (k, h));
            if k == 'd' {
                walk(base, &p, out);
            }
        }
    }
    let mut out = BTreeMap::new();
    walk(root, root, &mut out);
    out
}

/// Everything that changed between two listings must be a regular file directly inside `dir`
/// (relative to the sandbox). Returns the names of the new or rewritten files inside `dir`.
fn confined(before: &BTreeMap<String, (char, u64)>, after: &BTreeMap<String, (char, u64)>, dir: &str, what: &str) -> Result<Vec<String>, String> {
    let prefix = format!("{dir}/");
    let mut names = Vec::new();
    for (p, v) in after {
        if before.get(p) == Some(v) {
            continue;
        }
        let fresh = !before.contains_key(p);
        match p.strip_prefix(&prefix) {
            Some(n) if !n.contains('/') && v.0 == 'f' => names.push(n.to_string()),
            Some(n) => {
                return Err(format!(
                    "{what}: {} {:?} below the {dir} directory is not a regular file directly inside it (kind {})",
                    if fresh { "new entry" } else { "changed entry" },
                    n,
                    v.0
                ))
            }
            None => {
                return Err(format!(
                    "{what}: {} {p:?} (kind {}) OUTSIDE the {dir} directory (paths relative to the sandbox around it)",
                    if fresh { "created" } else { "modified" },
                    v.0
                ))
            }
        }
    }
    for p in before.keys() {
        if !after.contains_key(p) {
            return Err(format!("{what}: sandbox entry {p:?} disappeared"));
        }
    }
    Ok(names)
}

/// The rule for the part of a requested URL behind the metadata base.
fn plain_segment(seg: &str) -> Result<(), String> {
    if seg.is_empty() {
        return Err("is empty".into());
    }
    if seg == "." || seg == ".." {
        return Err("is a dot segment".into());
    }
    for (c, why) in [('/', "contains '/' (more than one path segment)"), ('\\', "contains '\\'"), ('?', "contains '?' (a query)"), ('#', "contains '#' (a fragment)"), ('\0', "contains NUL")] {
        if seg.contains(c) {
            return Err(why.into());
        }
    }
    Ok(())
}

fn expiry(i: usize) -> DateTime<Utc> {
    t0() + Duration::days(365) + Duration::seconds(1 + i as i64)
}

/// Splits a request log into the requests for delegated roles (in order) after checking every URL
/// against the single-segment rule. `top` = the fixed top-level requests expected in this phase.
fn delegated_requests(log: &[String], top: &[String], roles: &[Role], phase: &str) -> Result<Vec<String>, String> {
    let mut top_left: Vec<&String> = top.iter().collect();
    let mut d = Vec::new();
    for u in log {
        let who = |d: &Vec<String>| match roles.get(d.len()) {
            Some(r) => format!("for role {:?} (v{}, number {} in the delegation list)", r.name, r.version, d.len()),
            None => "after all roles had been fetched".to_string(),
        };
        let Some(seg) = u.strip_prefix(META_BASE) else {
            return Err(format!("{phase}: the client requested {u:?} {}, which is outside the metadata base URL {META_BASE:?}", who(&d)));
        };
        if let Some(pos) = top_left.iter().position(|t| t.as_str() == seg) {
            top_left.remove(pos);
            continue;
        }
        if let Err(why) = plain_segment(seg) {
            return Err(format!("{phase}: the client requested {u:?} {}: the part behind the metadata base {seg:?} {why}", who(&d)));
        }
        d.push(seg.to_string());
    }
    Ok(d)
}

fn marker(doc: &Value) -> Option<String> {
    doc.get("signed")?.get("x-name")?.as_str().map(|s| s.to_string())
}

/// Attributes the listed files of `dir` to roles through the `x-name` marker inside them.
fn attribute_by_marker(dir: &Path, files: &[String], roles: &[Role], what: &str, o: &mut Outcome) -> Result<Vec<String>, String> {
    let idx: HashMap<&str, usize> = roles.iter().enumerate().map(|(i, r)| (r.name.as_str(), i)).collect();
    let mut names: Vec<Vec<String>> = vec![Vec::new(); roles.len()];
    for f in files {
        let doc: Option<Value> = std::fs::read(dir.join(f)).ok().and_then(|b| serde_json::from_slice(&b).ok());
        match doc.as_ref().and_then(marker) {
            Some(m) => match idx.get(m.as_str()) {
                Some(i) => names[*i].push(f.clone()),
                None => o.label(format!("{what}:file-with-foreign-marker")),
            },
            None => {} // a top-level file
        }
    }
    let mut out = Vec::new();
    for (i, r) in roles.iter().enumerate() {
        match names[i].len() {
            1 => out.push(names[i][0].clone()),
            0 => {
                return Err(format!(
                    "{what}: no file holds the metadata of role {:?} (v{}): it was overwritten by another role's file or written somewhere else; files present: {:?}",
                    r.name,
                    r.version,
                    files.iter().take(12).collect::<Vec<_>>()
                ))
            }
            _ => return Err(format!("{what}: role {:?} was written to several files {:?}", r.name, names[i])),
        }
    }
    Ok(out)
}

/// Every role of the loaded repository must hold the document that was published for it.
fn check_loaded_markers(repo: &tough::Repository, roles: &[Role], what: &str) -> Result<(), String> {
    for r in roles {
        let Some(dr) = repo.delegated_role(&r.name) else {
            return Err(format!("{what}: loaded repository has no role {:?}", r.name));
        };
        let got = dr.targets.as_ref().and_then(|t| t.signed._extra.get("x-name")).and_then(|v| v.as_str());
        if got != Some(r.name.as_str()) {
            return Err(format!(
                "{what}: role {:?} was loaded with the metadata published for role {:?}: one role's file was served as another's",
                r.name, got
            ));
        }
    }
    Ok(())
}

fn fs_load(root: &[u8], metadata: &Path, targets: &Path) -> Result<tough::Repository, String> {
    let m = Url::from_directory_path(metadata).map_err(|_| "directory URL".to_string())?;
    let t = Url::from_directory_path(targets).map_err(|_| "directory URL".to_string())?;
    let root = root.to_vec();
    block_on(tough::RepositoryLoader::new(&root, m, t).transport(tough::FilesystemTransport).load()).map_err(|e| format!("{:?}: {e}", classify(&e)))
}

/// `cache_file_from_transport` writes through `tokio::fs::File::write_all` and never flushes, so the
/// last file can still be in flight on the blocking pool when `cache_metadata` returns (seen here:
/// an empty `1.root.json` right after an `Ok`). That is outside this property; to observe the
/// finished directory the call runs on a runtime of its own, and dropping a runtime waits for the
/// file operations it still owes.
fn block_on_then_drain<F: std::future::Future>(f: F) -> F::Output {
    let rt = tokio::runtime::Builder::new_current_thread().enable_all().max_blocking_threads(2).build().expect("tokio runtime");
    let r = rt.block_on(f);
    drop(rt);
    r
}

// ---------------------------------------------------------------------------------------------
// the repository server of this check

/// A repository that publishes every delegated role's file under whatever name the client uses
/// for it: top-level files live at their fixed URLs; the first URL nobody has asked for before is
/// bound to the first delegated role's document, the next new URL to the second one, and so on (the
/// client fetches delegated roles in the order the delegating role lists them). With binding
/// switched off (while caching) only URLs bound during the load exist. So the check never fails
/// because tough's spelling of a file name differs from somebody else's: only the clauses of the
/// statement can fail. Every request is logged.
#[derive(Clone)]
struct NamingServer {
    inner: Arc<NamingInner>,
}

struct NamingInner {
    fixed: HashMap<String, Vec<u8>>,
    absent: HashSet<String>,
    docs: Vec<Vec<u8>>,
    bound: Mutex<HashMap<String, usize>>,
    binding: AtomicBool,
    log: Mutex<Vec<String>>,
}

impl std::fmt::Debug for NamingServer {
    fn fmt(&self, f: &mut std::fmt::Formatter<'_>) -> std::fmt::Result {
        f.write_str("NamingServer")
    }
}

impl NamingServer {
    fn take_log(&self) -> Vec<String> {
        std::mem::take(&mut *self.inner.log.lock().unwrap())
    }
}

#[async_trait]
impl Transport for NamingServer {
    async fn fetch(&self, url: Url) -> Result<Pin<Box<dyn Stream<Item = Result<Bytes, TransportError>> + Send>>, TransportError> {
        let u = url.to_string();
        let i = &self.inner;
        i.log.lock().unwrap().push(u.clone());
        let body = if let Some(b) = i.fixed.get(&u) {
            Some(b.clone())
        } else if i.absent.contains(&u) || i.log.lock().unwrap().len() > 5000 {
            None
        } else {
            let mut bound = i.bound.lock().unwrap();
            match bound.get(&u) {
                Some(k) => Some(i.docs[*k].clone()),
                None if i.binding.load(Ordering::SeqCst) && bound.len() < i.docs.len() => {
                    let k = bound.len();
                    bound.insert(u.clone(), k);
                    Some(i.docs[k].clone())
                }
                None => None,
            }
        };
        match body {
            Some(b) => Ok(Box::pin(futures::stream::iter(vec![Ok(Bytes::from(b))]))),
            None => Err(TransportError::new(TransportErrorKind::FileNotFound, u)),
        }
    }
}

// ---------------------------------------------------------------------------------------------
// places 1-3: the client

fn client_places(consistent: bool, roles: &[Role], seen: &Seen, o: &mut Outcome) {
    let sandbox = tempfile::tempdir().expect("tempdir");
    let sb = sandbox.path();
    for d in ["ds", "cache", "empty-targets"] {
        std::fs::create_dir(sb.join(d)).expect("mkdir");
    }
    std::fs::write(sb.join("decoy.json"), b"{}").expect("decoy");

    let mut s = Simple::basic(consistent);
    s.delegs = roles
        .iter()
        .enumerate()
        .map(|(i, r)| {
            let mut d = DelegNode::new(&r.name, 4 + i % 8, PathSpec::Paths(vec![format!("{i}/*")]));
            d.version = r.version;
            d.expires = expiry(i);
            d.extra = vec![("x-name".to_string(), json!(r.name))];
            d
        })
        .collect();
    let built = s.build();
    let root = built.shipped(1);
    let snap = if consistent { "1.snapshot.json" } else { "snapshot.json" }.to_string();
    let targ = if consistent { "1.targets.json" } else { "targets.json" }.to_string();
    let at = |f: &str| format!("{META_BASE}{f}");
    let mut fixed = HashMap::new();
    for f in ["1.root.json", "timestamp.json", snap.as_str(), targ.as_str()] {
        fixed.insert(at(f), built.meta[f].clone());
    }
    let server = NamingServer {
        inner: Arc::new(NamingInner {
            fixed,
            absent: [at("2.root.json")].into_iter().collect(),
            docs: roles.iter().map(|r| forge::to_bytes(&built.docs[&r.name], s.style)).collect(),
            bound: Mutex::new(HashMap::new()),
            binding: AtomicBool::new(true),
            log: Mutex::new(Vec::new()),
        }),
    };

    // ---- load: place 1 (URLs) and place 2 (datastore)
    let before = tree(sb);
    let res = block_on(tough::RepositoryLoader::new(&root, meta_url(), targets_url()).transport(server.clone()).datastore(sb.join("ds")).load());
    server.inner.binding.store(false, Ordering::SeqCst);
    let after = tree(sb);
    let log = server.take_log();
    let top = vec!["2.root.json".to_string(), "timestamp.json".to_string(), snap.clone(), targ.clone()];
    let segs = match delegated_requests(&log, &top, roles, "load") {
        Ok(d) => d,
        Err(e) => return o.fail(e),
    };
    for (r, seg) in roles.iter().zip(&segs) {
        if let Err(e) = record(seen, P_URL, consistent, seg, r) {
            return o.fail(format!("load: {e}"));
        }
    }
    let ds_files = match confined(&before, &after, "ds", "load with a datastore") {
        Ok(f) => f,
        Err(e) => return o.fail(e),
    };
    let repo = match res {
        Ok(r) => r,
        Err(e) => {
            let at = roles.get(segs.len().saturating_sub(1)).map(|r| format!("{:?}", r.name)).unwrap_or_default();
            return o.fail(format!(
                "load failed although every role is correctly signed, listed in the snapshot as <name>.json and published under exactly the name the client asked for: {:?}: {e}; last delegated request {:?} (role {at})",
                classify(&e),
                segs.last()
            ));
        }
    };
    if segs.len() != roles.len() {
        o.inconclusive += 1;
        o.label("unexpected-request-pattern");
        return;
    }
    if let Err(e) = check_loaded_markers(&repo, roles, "load") {
        return o.fail(e);
    }
    let ds_names = match attribute_by_marker(&sb.join("ds"), &ds_files, roles, "datastore", o) {
        Ok(n) => n,
        Err(e) => return o.fail(e),
    };
    for (r, f) in roles.iter().zip(&ds_names) {
        if let Err(e) = record(seen, P_DS, consistent, f, r) {
            return o.fail(e);
        }
    }
    if ds_names != segs {
        o.label("datastore-name-differs-from-url");
    }

    // ---- cache_metadata: place 3 (and the URLs it requests)
    let before = after;
    let cres = block_on_then_drain(repo.cache_metadata(sb.join("cache"), true));
    let after = tree(sb);
    let log = server.take_log();
    let top = vec![snap, targ, "timestamp.json".to_string(), "1.root.json".to_string()];
    let csegs = match delegated_requests(&log, &top, roles, "cache_metadata") {
        Ok(d) => d,
        Err(e) => return o.fail(e),
    };
    let cache_files = match confined(&before, &after, "cache", "cache_metadata") {
        Ok(f) => f,
        Err(e) => return o.fail(e),
    };
    if let Err(e) = cres {
        return o.fail(format!(
            "cache_metadata failed on a repository that had just loaded through the same transport (the file name it derives from a role name is not the one the client loaded, or is not a plain entry): {e}; last delegated request {:?}",
            csegs.last()
        ));
    }
    if csegs.len() != roles.len() {
        o.inconclusive += 1;
        o.label("unexpected-request-pattern");
        return;
    }
    for (r, seg) in roles.iter().zip(&csegs) {
        if let Err(e) = record(seen, P_URL, consistent, seg, r) {
            return o.fail(format!("cache_metadata: {e}"));
        }
    }
    let cache_names = match attribute_by_marker(&sb.join("cache"), &cache_files, roles, "cache", o) {
        Ok(n) => n,
        Err(e) => return o.fail(e),
    };
    for (i, r) in roles.iter().enumerate() {
        if let Err(e) = record(seen, P_CACHE, consistent, &cache_names[i], r) {
            return o.fail(e);
        }
        if cache_names[i] != csegs[i] {
            return o.fail(format!(
                "cache_metadata: role {:?} was requested as {:?} but written as {:?}: FilesystemTransport opens the URL path as it stands, so the cached copy cannot be read back",
                r.name, csegs[i], cache_names[i]
            ));
        }
    }
    // the cached copy read back through the real FilesystemTransport: URL == on-disk name
    match fs_load(&root, &sb.join("cache"), &sb.join("empty-targets")) {
        Ok(r2) => {
            if let Err(e) = check_loaded_markers(&r2, roles, "cached copy through FilesystemTransport") {
                return o.fail(e);
            }
        }
        Err(e) => return o.fail(format!("the copy written by cache_metadata does not load through FilesystemTransport (URL path != file name on disk): {e}")),
    }
    let end = tree(sb);
    if let Err(e) = confined(&after, &end, "nowhere", "loading the cached copy") {
        return o.fail(e);
    }
    o.label("client:load+datastore+cache+fs-reload-ok");
}

// ---------------------------------------------------------------------------------------------
// place 4: the editor

fn nz(v: u64) -> NonZeroU64 {
    NonZeroU64::new(v.max(1)).unwrap()
}

fn local(i: usize) -> Box<dyn KeySource> {
    Box::new(LocalKeySource { path: key(i).priv_path.clone() })
}

enum Ed {
    /// indices of the roles the editor accepted
    Written(Vec<usize>),
    SignRejected(String),
    WriteFailed(String),
    Setup(String),
}

fn run_editor(root_path: &Path, out: &Path, roles: &[Role], rejected: &mut Vec<(usize, String)>) -> Ed {
    block_on(async {
        let mut ed = match tough::editor::RepositoryEditor::new(root_path).await {
            Ok(e) => e,
            Err(e) => return Ed::Setup(format!("RepositoryEditor::new: {e}")),
        };
        let exp = t0() + Duration::days(365);
        if let Err(e) = ed.targets_version(nz(1)).and_then(|e| e.targets_expires(exp)) {
            return Ed::Setup(format!("targets version/expires: {e}"));
        }
        ed.snapshot_version(nz(1)).snapshot_expires(exp).timestamp_version(nz(1)).timestamp_expires(exp);
        let mut accepted = Vec::new();
        for (i, r) in roles.iter().enumerate() {
            let pattern = match PathPattern::new(format!("{i}/*")) {
                Ok(p) => p,
                Err(e) => return Ed::Setup(format!("path pattern: {e}")),
            };
            let ks = vec![local(4 + i % 8)];
            match ed.delegate_role(&r.name, &ks, PathSet::Paths(vec![pattern]), nz(1), expiry(i), nz(r.version)).await {
                Ok(_) => accepted.push(i),
                Err(e) => rejected.push((i, e.to_string())),
            }
        }
        let top = vec![local(1), local(2), local(3)];
        let signed = match ed.sign(&top).await {
            Ok(s) => s,
            Err(e) => return Ed::SignRejected(e.to_string()),
        };
        match signed.write(out).await {
            Ok(()) => Ed::Written(accepted),
            Err(e) => Ed::WriteFailed(e.to_string()),
        }
    })
}

fn editor_place(consistent: bool, roles: &[Role], seen: &Seen, o: &mut Outcome) {
    let sandbox = tempfile::tempdir().expect("tempdir");
    let sb = sandbox.path();
    for d in ["out", "empty-targets"] {
        std::fs::create_dir(sb.join(d)).expect("mkdir");
    }
    let root = Simple::basic(consistent).build().shipped(1);
    std::fs::write(sb.join("root.json"), &root).expect("root.json");
    let before = tree(sb);
    let mut rejected = Vec::new();
    let r = run_editor(&sb.join("root.json"), &sb.join("out"), roles, &mut rejected);
    let after = tree(sb);
    if !rejected.is_empty() {
        o.label("editor:delegate_role-rejected-a-name");
    }
    // whatever happened, nothing may have been touched outside the output directory
    let files = match confined(&before, &after, "out", "SignedRepository::write") {
        Ok(f) => f,
        Err(e) => return o.fail(e),
    };
    let accepted = match r {
        Ed::Written(a) => a,
        Ed::Setup(e) => {
            o.inconclusive += 1;
            o.label(format!("editor-setup-trouble: {e}"));
            return;
        }
        Ed::SignRejected(_) => {
            o.label("editor:sign-rejected");
            return;
        }
        Ed::WriteFailed(e) => {
            return o.fail(format!(
                "the editor accepted and signed the role names, then SignedRepository::write failed in a fresh, writable directory: the file name it derived is not a plain entry: {e}"
            ))
        }
    };
    // attribute files to roles through the unique expiry of each role
    let by_exp: HashMap<i64, usize> = accepted.iter().map(|i| (expiry(*i).timestamp(), *i)).collect();
    let mut names: HashMap<usize, Vec<String>> = HashMap::new();
    for f in &files {
        let doc: Option<Value> = std::fs::read(sb.join("out").join(f)).ok().and_then(|b| serde_json::from_slice(&b).ok());
        let Some(doc) = doc else { continue };
        if doc["signed"]["_type"] != "targets" {
            continue;
        }
        let exp = doc["signed"]["expires"].as_str().and_then(|s| DateTime::parse_from_rfc3339(s).ok()).map(|d| d.timestamp());
        if let Some(i) = exp.and_then(|e| by_exp.get(&e)) {
            names.entry(*i).or_default().push(f.clone());
        }
    }
    for i in &accepted {
        let r = &roles[*i];
        match names.get(i).map(|v| v.as_slice()) {
            Some([f]) => {
                if let Err(e) = record(seen, P_EDITOR, consistent, f, r) {
                    return o.fail(e);
                }
            }
            Some(many) if many.len() > 1 => return o.fail(format!("editor: role {:?} was written to several files {many:?}", r.name)),
            _ => {
                return o.fail(format!(
                    "editor: no file in the output directory holds the metadata of role {:?} (v{}): it was overwritten by another role's file or written somewhere else; files present: {:?}",
                    r.name,
                    r.version,
                    files.iter().take(12).collect::<Vec<_>>()
                ))
            }
        }
    }
    // what the editor wrote must load through FilesystemTransport, each role with its own document
    match fs_load(&root, &sb.join("out"), &sb.join("empty-targets")) {
        Ok(repo) => {
            for i in &accepted {
                let r = &roles[*i];
                let got = repo.delegated_role(&r.name).and_then(|d| d.targets.as_ref()).map(|t| (t.signed.expires.timestamp(), t.signed.version.get()));
                if got != Some((expiry(*i).timestamp(), r.version)) {
                    return o.fail(format!(
                        "editor output loaded through FilesystemTransport: role {:?} holds (expires, version) {:?}, not the document written for it {:?}: one role's file was served as another's",
                        r.name,
                        got,
                        (expiry(*i).timestamp(), r.version)
                    ));
                }
            }
        }
        Err(e) => {
            return o.fail(format!(
                "the repository the editor signed and wrote does not load through FilesystemTransport (URL path != file name on disk, or a file was overwritten): {e}"
            ))
        }
    }
    let end = tree(sb);
    if let Err(e) = confined(&after, &end, "nowhere", "loading the editor's output") {
        return o.fail(e);
    }
    o.label("editor:delegate+sign+write+fs-load-ok");
}

// ---------------------------------------------------------------------------------------------
// the property

fn prop(case: &Case, seen: &Seen) -> Outcome {
    let mut o = Outcome::new();
    crate::rt::set_now(t0());
    let roles = effective(case, &mut o);
    o.weight = roles.len().max(1) as u64;
    o.shape = format!("{case:?}");
    o.nontrivial = roles.iter().any(|r| nontrivial_name(&r.name));
    o.label(if case.consistent { "mode:consistent-snapshot" } else { "mode:plain" });
    let has = |f: &dyn Fn(&str) -> bool| roles.iter().any(|r| f(&r.name));
    for (l, f) in [
        ("has:slash", (&|n: &str| n.contains('/')) as &dyn Fn(&str) -> bool),
        ("has:backslash", &|n: &str| n.contains('\\')),
        ("has:dot-or-dotdot-name", &|n: &str| n == "." || n == ".."),
        ("has:dotdot-slash", &|n: &str| n.contains("../") || n.contains("..\\")),
        ("has:leading-slash", &|n: &str| n.starts_with('/')),
        ("has:percent", &|n: &str| n.contains('%')),
        ("has:percent-escape-spelling", &|n: &str| pct_decode(n).is_some()),
        ("has:query-or-fragment-char", &|n: &str| n.contains('?') || n.contains('#')),
        ("has:colon", &|n: &str| n.contains(':')),
        ("has:space", &|n: &str| n.contains(' ')),
        ("has:control-char", &|n: &str| n.chars().any(|c| c.is_control())),
        ("has:multibyte", &|n: &str| !n.is_ascii()),
        ("has:empty-name", &|n: &str| n.is_empty()),
        ("has:json-suffix", &|n: &str| n.ends_with(".json")),
        ("has:digits-dot-prefix", &|n: &str| n.split_once('.').map_or(false, |(d, _)| !d.is_empty() && d.bytes().all(|b| b.is_ascii_digit()))),
        ("has:name-over-40-bytes", &|n: &str| n.len() > 40),
    ] {
        if has(f) {
            o.label(l);
        }
    }
    if roles.is_empty() {
        o.label("no-role-inside-domain");
        return o;
    }
    client_places(case.consistent, &roles, seen, &mut o);
    if o.failed() {
        return o;
    }
    editor_place(case.consistent, &roles, seen, &mut o);
    o
}

// ---------------------------------------------------------------------------------------------
// generators

/// one level of percent-decoding; `None` if nothing to decode or the result is not a domain name
fn pct_decode(n: &str) -> Option<String> {
    let b = n.as_bytes();
    let mut out = Vec::new();
    let mut i = 0;
    let mut any = false;
    while i < b.len() {
        if b[i] == b'%' && i + 2 < b.len() && b[i + 1].is_ascii_hexdigit() && b[i + 2].is_ascii_hexdigit() {
            let hex = |c: u8| (c as char).to_digit(16).unwrap() as u8;
            out.push(hex(b[i + 1]) * 16 + hex(b[i + 2]));
            i += 3;
            any = true;
            continue;
        }
        out.push(b[i]);
        i += 1;
    }
    if !any {
        return None;
    }
    let s = String::from_utf8(out).ok()?;
    if s.contains('\0') || !signable(&s) {
        return None;
    }
    Some(s)
}

fn fully_decoded(n: &str) -> String {
    let mut cur = n.to_string();
    for _ in 0..4 {
        match pct_decode(&cur) {
            Some(d) => cur = d,
            None => break,
        }
    }
    cur
}

/// percent-encoding spellings of a name (the harness' own; used only to build inputs)
fn pct_encode(n: &str, all: bool, lower: bool) -> String {
    let mut s = String::new();
    for b in n.bytes() {
        if !all && (b.is_ascii_alphanumeric() || matches!(b, b'-' | b'.' | b'_' | b'~')) {
            s.push(b as char);
        } else if lower {
            s.push_str(&format!("%{b:02x}"));
        } else {
            s.push_str(&format!("%{b:02X}"));
        }
    }
    s
}

fn strings_up_to(len: usize) -> Vec<String> {
    let mut all = vec![String::new()];
    let mut layer = vec![String::new()];
    for _ in 0..len {
        let mut next = Vec::with_capacity(layer.len() * ALPHA.len());
        for s in &layer {
            for c in ALPHA {
                let mut t = s.clone();
                t.push(c);
                next.push(t);
            }
        }
        all.extend(next.iter().cloned());
        layer = next;
    }
    all
}

fn pack(names: Vec<(String, u8)>) -> Vec<Case> {
    let mut out = Vec::new();
    for consistent in [false, true] {
        for chunk in names.chunks(PACK) {
            out.push(Case { consistent, roles: chunk.to_vec() });
        }
    }
    out
}

/// every string of length <= len over ALPHA, ordered by percent-decoded form so that a name and its
/// escaped spellings land in the same repository, packed PACK to a case, both snapshot modes
fn short_name_cases(len: usize) -> Vec<Case> {
    let mut names: Vec<String> = strings_up_to(len).into_iter().filter(|n| !reserved(n)).collect();
    names.sort_by(|a, b| (fully_decoded(a), a).cmp(&(fully_decoded(b), b)));
    pack(names.into_iter().enumerate().map(|(i, n)| (n, 1 + (i % 3) as u8)).collect())
}

const SPECIALS: &[&str] = &[
    ".", "..", "...", "x.json", "a.json", "a.json.json", ".json", "..json", "a%2Fb", "a/b", "a%2fb", "a%252Fb", "%2e%2e", "%2E%2E", "..%2F", "..%2f", "../", "../x", "../../x", "/", "//", "/abs",
    "/etc/passwd", "a/../b", "a/./b", "./a", "..\\x", "..\\", "C:\\x", "\\\\host\\share", "a?b", "a#b", "?", "#", "a:b", ":", "http://h/x", "file:///x", "%", "%%", "%2", "%zz", "%25", "%2F",
    "%5C", "%00", "%01", "a b", " a", "a ", " ", "\u{1}", "\t", "\n", "a\nb", "\r\n", "\u{7f}", "~", "~root", "-", "--", "_", "CON", "NUL", "é", "e9", "%C3%A9", "%c3%a9", "中/文", "🍺", "1.a",
    "1.1.a", "2.a", "01.a", "1.", "1", "1..", "a", "A", "2", "root.json", "targets.json", "1.root.json", "x.root", "roles", "role1", "a*", "*", "[a]", "{a,b}", "$HOME", "`x`", "a;b", "a|b", "a&b",
    "a'b", "a\"b", "<a>", "a,b", "a=b", "a+b", "a@b", "!", "(a)",
];

/// families of spellings of one another, each family inside one repository
fn spelling_cases() -> Vec<Case> {
    let mut bases: Vec<String> = strings_up_to(2);
    bases.extend(SPECIALS.iter().map(|s| s.to_string()));
    bases.push("a".repeat(MAX_NAME_BYTES));
    bases.push("/".repeat(MAX_NAME_BYTES));
    bases.push("é".repeat(MAX_NAME_BYTES / 2));
    bases.push("../".repeat(MAX_NAME_BYTES / 3));
    let mut cases = Vec::new();
    let mut cur: Vec<(String, u8)> = Vec::new();
    let mut have: HashSet<String> = HashSet::new();
    for (k, b) in bases.iter().enumerate() {
        let mut fam = vec![
            b.clone(),
            pct_encode(b, false, false),
            pct_encode(b, false, true),
            pct_encode(b, true, false),
            pct_encode(&pct_encode(b, false, false), false, false),
            format!("{b}.json"),
            format!("1.{b}"),
        ];
        if let Some(d) = pct_decode(b) {
            fam.push(d);
        }
        fam.retain(|n| n.len() <= MAX_NAME_BYTES && !reserved(n) && signable(n) && !n.contains('\0'));
        if cur.len() + fam.len() > PACK {
            cases.push(std::mem::take(&mut cur));
            have.clear();
        }
        for (j, n) in fam.into_iter().enumerate() {
            if have.insert(n.clone()) {
                cur.push((n, 1 + ((k + j) % 3) as u8));
            }
        }
    }
    if !cur.is_empty() {
        cases.push(cur);
    }
    let mut out = Vec::new();
    for consistent in [false, true] {
        for c in &cases {
            out.push(Case { consistent, roles: c.clone() });
        }
    }
    out
}

fn any_char() -> impl Strategy<Value = char> {
    prop_oneof![
        4 => prop::sample::select(ALPHA.to_vec()),
        3 => (0x20u8..0x7f).prop_map(|b| b as char),
        2 => prop_oneof![(0x01u8..0x20).prop_map(|b| b as char), Just('\u{7f}')],
        3 => prop::sample::select(MULTI.to_vec()),
    ]
}

fn truncate_bytes(mut s: String, max: usize) -> String {
    while s.len() > max {
        s.pop();
    }
    s
}

/// building blocks of path-like names
const TOKENS: [&str; 24] = ["../", "..", "./", ".", "/", "//", "\\", "..\\", "%2F", "%2f", "%2e", "%2E%2E", "%5C", "%25", "%", "?", "#", ":", " ", "a", "b.json", "1.", "é", "\u{1}"];

fn random_name() -> impl Strategy<Value = String> {
    prop_oneof![
        6 => prop::collection::vec(any_char(), 0..=64).prop_map(|v| truncate_bytes(v.into_iter().collect(), MAX_NAME_BYTES)),
        1 => prop::collection::vec(prop::sample::select(ALPHA.to_vec()), 0..=8).prop_map(|v| v.into_iter().collect::<String>()),
        1 => prop::collection::vec(prop::sample::select(TOKENS.to_vec()), 1..=10).prop_map(|v| truncate_bytes(v.concat(), MAX_NAME_BYTES)),
    ]
}

fn random_case() -> impl Strategy<Value = Case> {
    (any::<bool>(), prop::collection::vec((random_name(), 1u8..=3, 0u8..8), 90..=110)).prop_map(|(consistent, v)| {
        let mut roles = Vec::new();
        let mut have = HashSet::new();
        let mut push = |n: String, ver: u8| {
            if n.len() <= MAX_NAME_BYTES && !reserved(&n) && signable(&n) && have.insert(n.clone()) {
                roles.push((n, ver));
            }
        };
        for (n, ver, twin) in v {
            // one name in four travels with a spelling of itself
            match twin {
                0 => push(pct_encode(&n, false, false), ver),
                1 => push(pct_encode(&n, false, true), ver),
                2 => {
                    if let Some(d) = pct_decode(&n) {
                        push(d, ver)
                    }
                }
                _ => {}
            }
            push(n, ver);
        }
        Case { consistent, roles }
    })
}

// ---------------------------------------------------------------------------------------------
// notes outside the quantified domain (never judged)

fn note_case(name: &String) -> Outcome {
    let mut o = Outcome::new();
    crate::rt::set_now(t0());
    o.shape = name.clone();
    if !signable(name) {
        return o;
    }
    for consistent in [false, true] {
        let sandbox = tempfile::tempdir().expect("tempdir");
        let ds = sandbox.path().join("ds");
        std::fs::create_dir(&ds).expect("mkdir");
        let mut s = Simple::basic(consistent);
        let mut d = DelegNode::new(name, 4, PathSpec::Paths(vec!["0/*".into()]));
        d.extra = vec![("x-name".to_string(), json!(name))];
        s.delegs = vec![d];
        let built = s.build();
        let mem = MemTransport::new();
        built.install_meta(&mem);
        let mut results = Vec::new();
        for _cycle in 0..2 {
            let r = forge::load(&mem, &built.shipped(1), &LoadOpts { datastore: Some(ds.clone()), ..Default::default() });
            results.push(match &r {
                Ok(_) => "Ok".to_string(),
                Err(e) => format!("Err({:?})", classify(e)),
            });
        }
        let shown: String = if name.len() > 24 { format!("{}..({} bytes)", name.chars().take(8).collect::<String>(), name.len()) } else { name.clone() };
        o.label(format!(
            "note: delegated role {shown:?}, consistent_snapshot={consistent}: two load cycles on one datastore -> {}",
            results.join(", ")
        ));
    }
    o
}

// ---------------------------------------------------------------------------------------------

const RULE_TAIL: &str = "A case is one repository of delegated roles (all directly under targets, ed25519, no targets, versions 1..3); each name is observed at four places: URLs requested through MemTransport (load and cache_metadata), datastore files, cache_metadata files, files written by RepositoryEditor/SignedRepository::write; sandbox diffs around every directory; cached copy and editor output re-loaded through FilesystemTransport; one injectivity map per place shared by all cases and parts. 'evaluations' counts role names, not repositories. Non-trivial: the repository contains a name with a character outside [A-Za-z0-9_.~-] or the name '.' or '..'; distinct = whole case";

pub fn check(ctx: &Ctx) -> Vec<PartReport> {
    let seen: Seen = Mutex::new(HashMap::new());
    let mut out = Vec::new();
    let len = ctx.tier.pick(3, 4);
    let cases = short_name_cases(len);
    let n = cases.len() as u64;
    out.push(run_part(
        ctx,
        PartSpec {
            name: "short-names",
            rule: &format!("EXHAUSTIVE: every string of length <= {len} (the empty string included) over the alphabet {{a / \\ . % ? # : space U+0001 é 2 F}}, ordered by percent-decoded form and packed {PACK} to a repository, each repository in both consistent-snapshot settings. {RULE_TAIL}"),
            mode: Mode::Enumerate { cases, complete: true },
            prop: Box::new(|c: &Case| prop(c, &seen)),
            require: vec![
                ("client:load+datastore+cache+fs-reload-ok", n),
                ("editor:delegate+sign+write+fs-load-ok", n),
                ("has:slash", n / 4),
                ("has:dotdot-slash", 2),
                ("has:dot-or-dotdot-name", 2),
                ("has:empty-name", 2),
                ("has:percent-escape-spelling", 2),
                ("mode:consistent-snapshot", n / 2),
            ],
        },
    ));
    let cases = spelling_cases();
    let n = cases.len() as u64;
    out.push(run_part(
        ctx,
        PartSpec {
            name: "spellings",
            rule: &format!("families of names that are spellings of one another, each family inside one repository: for every string of length <= 2 over the same alphabet and {} hand-picked names (., .., x.json, a/b with a%2Fb, %2e%2e, ..%2F, ../x, /abs, C:\\x, a?b, a#b, URL-like, shell-like, 82-byte names ...) the name itself, its percent-encoded forms (unreserved kept / upper and lower hex / every byte / twice), its percent-decoded form, name+'.json' and '1.'+name; both consistent-snapshot settings. {RULE_TAIL}", SPECIALS.len()),
            mode: Mode::Enumerate { cases, complete: false },
            prop: Box::new(|c: &Case| prop(c, &seen)),
            require: vec![
                ("client:load+datastore+cache+fs-reload-ok", n),
                ("editor:delegate+sign+write+fs-load-ok", n),
                ("has:percent-escape-spelling", n / 2),
                ("has:json-suffix", n / 2),
                ("has:digits-dot-prefix", n / 2),
            ],
        },
    ));
    let n = ctx.cases(400, 3000);
    out.push(run_part(
        ctx,
        PartSpec {
            name: "random-names",
            rule: &format!("random repositories of ~90-130 names: strings of 0..64 characters (cut to {MAX_NAME_BYTES} UTF-8 bytes) over the enumeration alphabet, printable ASCII, the control characters U+0001..U+001F and U+007F, and 2-/3-/4-byte characters; one name in eight is a short string over the enumeration alphabet, one in eight a concatenation of path-like tokens (../ ./ // ..\\ %2F %2e %5C %25 b.json 1. ...); three names in eight travel with a percent-encoded or -decoded spelling of themselves; versions 1..3 and the consistent-snapshot flag random. {RULE_TAIL}"),
            mode: Mode::Random { cases: n, strategy: Box::new(|| bx(random_case())) },
            prop: Box::new(|c: &Case| prop(c, &seen)),
            require: vec![
                ("client:load+datastore+cache+fs-reload-ok", n as u64 * 9 / 10),
                ("editor:delegate+sign+write+fs-load-ok", n as u64 * 9 / 10),
                ("has:control-char", n as u64 / 2),
                ("has:multibyte", n as u64 / 2),
                ("has:name-over-40-bytes", n as u64 / 2),
                ("has:dotdot-slash", n as u64 / 2),
                ("mode:consistent-snapshot", n as u64 / 4),
                ("mode:plain", n as u64 / 4),
            ],
        },
    ));
    let notes: Vec<String> = vec!["2.root".into(), "1.root".into(), "timestamp".into(), "snapshot".into(), "1.snapshot".into(), "latest_known_time".into(), "/".repeat(90)];
    out.push(run_part(
        ctx,
        PartSpec {
            name: "outside-domain-notes",
            rule: "NOT JUDGED (never fails): delegated role names that equal a file stem tough itself uses (N.root, timestamp, snapshot, N.snapshot, latest_known_time) or whose encoded file name exceeds NAME_MAX; the labels record what two load cycles on one datastore do with them",
            mode: Mode::Enumerate { cases: notes, complete: false },
            prop: Box::new(note_case),
            require: vec![],
        },
    ));
    if ctx.tier == crate::engine::Tier::Thorough && !ctx.stop.load(std::sync::atomic::Ordering::Relaxed) {
        out.push(crate::fuzz::run(ctx, "C16", "role_filename", (1_000_000f64 * ctx.scale) as u64, 128));
    }
    out
}

pub fn replay(_ctx: &Ctx, part: &str, case: &Value) -> Outcome {
    if let Some(t) = part.strip_prefix("fuzz:") {
        return crate::fuzz::replay(t, case["input_hex"].as_str().unwrap_or(""));
    }
    match part {
        "outside-domain-notes" => crate::engine::replay_case::<String>(case, note_case),
        _ => {
            let seen: Seen = Mutex::new(HashMap::new());
            crate::engine::replay_case::<Case>(case, |c| prop(c, &seen))
        }
    }
}
