//! C11 — canonical JSON output is the OLPC canonical form of the value, and only of it.
//!
//! Oracle: an independent canonicaliser and an independent parser of the canonical form, both in
//! this file. NFC is known by construction: strings are built from atoms whose NFC form is listed
//! in a hand-made table (no unicode-normalization crate on the oracle side).

use crate::engine::{bx, run_part, Ctx, Mode, Outcome, PartReport, PartSpec};
use proptest::prelude::*;
use serde::ser::{SerializeMap, SerializeSeq};
use serde::{Deserialize, Serialize, Serializer};
use serde_json::Value;
use std::collections::HashMap;
use std::sync::Mutex;

pub fn info() -> super::Info {
    super::Info {
        level: "exploration",
        assumptions: vec![
            "NFC is checked only for strings built from the harness' atom table (ASCII incl. all control characters, precomposed and decomposed Latin, Angstrom/Ohm singletons, Hangul LV, a reordering pair, CJK, a 4-byte character); atoms are chosen so that concatenation does not create new compositions",
            "non-finite floats are outside the domain (not JSON values)",
        ],
    }
}

// ---------------------------------------------------------------------------------------------
// atoms: (raw, nfc)
const ATOMS_SPECIAL: &[(&str, &str)] = &[
    ("\u{e9}", "\u{e9}"),
    ("e\u{301}", "\u{e9}"),
    ("\u{212b}", "\u{c5}"),
    ("A\u{30a}", "\u{c5}"),
    ("\u{c5}", "\u{c5}"),
    ("\u{1100}\u{1161}", "\u{ac00}"),
    ("\u{ac00}", "\u{ac00}"),
    ("a\u{307}\u{323}", "\u{1ea1}\u{307}"),
    ("a\u{323}\u{307}", "\u{1ea1}\u{307}"),
    ("\u{1ea1}\u{307}", "\u{1ea1}\u{307}"),
    ("q\u{307}\u{323}", "q\u{323}\u{307}"),
    ("q\u{323}\u{307}", "q\u{323}\u{307}"),
    ("\u{2126}", "\u{3a9}"),
    ("\u{3a9}", "\u{3a9}"),
    ("\u{4e2d}", "\u{4e2d}"),
    ("\u{1f37a}", "\u{1f37a}"),
    ("\u{fb01}", "\u{fb01}"),
    ("\u{7f}", "\u{7f}"),
    ("\u{80}", "\u{80}"),
    ("\u{7ff}", "\u{7ff}"),
    ("\u{800}", "\u{800}"),
    ("\u{ffff}", "\u{ffff}"),
    ("\u{10000}", "\u{10000}"),
];

/// atom index space: 0..128 = the ASCII code point itself, 128.. = ATOMS_SPECIAL
const N_ATOMS: usize = 128 + ATOMS_SPECIAL.len();

fn atom_raw(i: usize) -> String {
    if i < 128 {
        (i as u8 as char).to_string()
    } else {
        ATOMS_SPECIAL[i - 128].0.to_string()
    }
}
fn atom_nfc(i: usize) -> String {
    if i < 128 {
        (i as u8 as char).to_string()
    } else {
        ATOMS_SPECIAL[i - 128].1.to_string()
    }
}

#[derive(Clone, Debug, Serialize, Deserialize, PartialEq)]
pub struct S(pub Vec<u16>);

impl S {
    fn raw(&self) -> String {
        self.0.iter().map(|i| atom_raw(*i as usize % N_ATOMS)).collect()
    }
    fn nfc(&self) -> String {
        self.0.iter().map(|i| atom_nfc(*i as usize % N_ATOMS)).collect()
    }
}

#[derive(Clone, Debug, Serialize, Deserialize, PartialEq)]
pub enum J {
    Null,
    Bool(bool),
    I(i64),
    U(u64),
    I128(i128),
    U128(u128),
    F64(f64),
    F32(f32),
    Str(S),
    Arr(Vec<J>),
    Obj(Vec<(S, J)>),
}

/// Feeds members to the serializer in exactly the stored order.
struct Feed<'a>(&'a J, Order);

#[derive(Clone, Copy, PartialEq, Debug)]
enum Order {
    AsIs,
    Reversed,
    Rotated,
}

impl Serialize for Feed<'_> {
    fn serialize<Z: Serializer>(&self, s: Z) -> Result<Z::Ok, Z::Error> {
        let ord = self.1;
        match self.0 {
            J::Null => s.serialize_unit(),
            J::Bool(b) => s.serialize_bool(*b),
            J::I(i) => s.serialize_i64(*i),
            J::U(u) => s.serialize_u64(*u),
            J::I128(i) => s.serialize_i128(*i),
            J::U128(u) => s.serialize_u128(*u),
            J::F64(f) => s.serialize_f64(*f),
            J::F32(f) => s.serialize_f32(*f),
            J::Str(x) => s.serialize_str(&x.raw()),
            J::Arr(a) => {
                let mut seq = s.serialize_seq(Some(a.len()))?;
                for x in a {
                    seq.serialize_element(&Feed(x, ord))?;
                }
                seq.end()
            }
            J::Obj(m) => {
                let mut idx: Vec<usize> = (0..m.len()).collect();
                match ord {
                    Order::AsIs => {}
                    Order::Reversed => idx.reverse(),
                    Order::Rotated => {
                        if !idx.is_empty() {
                            let k = idx.len() / 2 + 1;
                            let n = idx.len();
                            idx.rotate_left(k % n);
                        }
                    }
                }
                let mut map = s.serialize_map(Some(m.len()))?;
                for i in idx {
                    map.serialize_entry(&m[i].0.raw(), &Feed(&m[i].1, ord))?;
                }
                map.end()
            }
        }
    }
}

pub fn lib_canon<T: Serialize>(v: &T) -> Result<Vec<u8>, String> {
    let mut buf = Vec::new();
    let mut ser = serde_json::Serializer::with_formatter(&mut buf, olpc_cjson::CanonicalFormatter::new());
    v.serialize(&mut ser).map_err(|e| e.to_string())?;
    Ok(buf)
}

// ---------------------------------------------------------------------------------------------
// reference canonicaliser

fn ref_string(out: &mut Vec<u8>, nfc: &str) {
    out.push(b'"');
    for b in nfc.bytes() {
        if b == b'"' || b == b'\\' {
            out.push(b'\\');
        }
        out.push(b);
    }
    out.push(b'"');
}

fn has_float(j: &J) -> bool {
    match j {
        J::F64(_) | J::F32(_) => true,
        J::Arr(a) => a.iter().any(has_float),
        J::Obj(m) => m.iter().any(|(_, v)| has_float(v)),
        _ => false,
    }
}

fn ref_canon(out: &mut Vec<u8>, j: &J) {
    match j {
        J::Null => out.extend_from_slice(b"null"),
        J::Bool(true) => out.extend_from_slice(b"true"),
        J::Bool(false) => out.extend_from_slice(b"false"),
        J::I(i) => out.extend_from_slice(i.to_string().as_bytes()),
        J::U(u) => out.extend_from_slice(u.to_string().as_bytes()),
        J::I128(i) => out.extend_from_slice(i.to_string().as_bytes()),
        J::U128(u) => out.extend_from_slice(u.to_string().as_bytes()),
        J::F64(_) | J::F32(_) => unreachable!("floats have no canonical form"),
        J::Str(s) => ref_string(out, &s.nfc()),
        J::Arr(a) => {
            out.push(b'[');
            for (i, x) in a.iter().enumerate() {
                if i > 0 {
                    out.push(b',');
                }
                ref_canon(out, x);
            }
            out.push(b']');
        }
        J::Obj(m) => {
            let mut members: Vec<(String, &J)> = m.iter().map(|(k, v)| (k.nfc(), v)).collect();
            members.sort_by(|a, b| a.0.as_bytes().cmp(b.0.as_bytes()));
            out.push(b'{');
            for (i, (k, v)) in members.iter().enumerate() {
                if i > 0 {
                    out.push(b',');
                }
                ref_string(out, k);
                out.push(b':');
                ref_canon(out, v);
            }
            out.push(b'}');
        }
    }
}

// ---------------------------------------------------------------------------------------------
// independent parser of the canonical form -> normalised tree

#[derive(Debug, PartialEq, Clone)]
enum N {
    Null,
    Bool(bool),
    Int(String),
    Str(String),
    Arr(Vec<N>),
    Obj(Vec<(String, N)>),
}

fn normalise(j: &J) -> N {
    match j {
        J::Null => N::Null,
        J::Bool(b) => N::Bool(*b),
        J::I(i) => N::Int(i.to_string()),
        J::U(u) => N::Int(u.to_string()),
        J::I128(i) => N::Int(i.to_string()),
        J::U128(u) => N::Int(u.to_string()),
        J::F64(_) | J::F32(_) => unreachable!(),
        J::Str(s) => N::Str(s.nfc()),
        J::Arr(a) => N::Arr(a.iter().map(normalise).collect()),
        J::Obj(m) => {
            let mut v: Vec<(String, N)> = m.iter().map(|(k, x)| (k.nfc(), normalise(x))).collect();
            v.sort_by(|a, b| a.0.as_bytes().cmp(b.0.as_bytes()));
            N::Obj(v)
        }
    }
}

struct P<'a> {
    b: &'a [u8],
    i: usize,
}

impl P<'_> {
    fn peek(&self) -> Option<u8> {
        self.b.get(self.i).copied()
    }
    fn eat(&mut self, lit: &[u8]) -> Result<(), String> {
        if self.b[self.i..].starts_with(lit) {
            self.i += lit.len();
            Ok(())
        } else {
            Err(format!("expected {:?} at {}", String::from_utf8_lossy(lit), self.i))
        }
    }
    fn string(&mut self) -> Result<String, String> {
        self.eat(b"\"")?;
        let mut out = Vec::new();
        loop {
            match self.peek() {
                None => return Err("unterminated string".into()),
                Some(b'"') => {
                    self.i += 1;
                    break;
                }
                Some(b'\\') => {
                    let n = self.b.get(self.i + 1).copied();
                    match n {
                        Some(b'"') | Some(b'\\') => {
                            out.push(n.unwrap());
                            self.i += 2;
                        }
                        _ => return Err(format!("escape other than \\\" or \\\\ at {}", self.i)),
                    }
                }
                Some(c) => {
                    out.push(c);
                    self.i += 1;
                }
            }
        }
        String::from_utf8(out).map_err(|e| e.to_string())
    }
    fn value(&mut self) -> Result<N, String> {
        match self.peek() {
            Some(b'n') => self.eat(b"null").map(|_| N::Null),
            Some(b't') => self.eat(b"true").map(|_| N::Bool(true)),
            Some(b'f') => self.eat(b"false").map(|_| N::Bool(false)),
            Some(b'"') => self.string().map(N::Str),
            Some(b'[') => {
                self.i += 1;
                let mut v = Vec::new();
                if self.peek() == Some(b']') {
                    self.i += 1;
                    return Ok(N::Arr(v));
                }
                loop {
                    v.push(self.value()?);
                    match self.peek() {
                        Some(b',') => self.i += 1,
                        Some(b']') => {
                            self.i += 1;
                            return Ok(N::Arr(v));
                        }
                        _ => return Err(format!("bad array at {}", self.i)),
                    }
                }
            }
            Some(b'{') => {
                self.i += 1;
                let mut v: Vec<(String, N)> = Vec::new();
                if self.peek() == Some(b'}') {
                    self.i += 1;
                    return Ok(N::Obj(v));
                }
                loop {
                    let k = self.string()?;
                    if let Some((prev, _)) = v.last() {
                        if prev.as_bytes() >= k.as_bytes() {
                            return Err(format!("object keys not strictly ascending: {prev:?} then {k:?}"));
                        }
                    }
                    self.eat(b":")?;
                    let x = self.value()?;
                    v.push((k, x));
                    match self.peek() {
                        Some(b',') => self.i += 1,
                        Some(b'}') => {
                            self.i += 1;
                            return Ok(N::Obj(v));
                        }
                        _ => return Err(format!("bad object at {}", self.i)),
                    }
                }
            }
            Some(c) if c == b'-' || c.is_ascii_digit() => {
                let start = self.i;
                if c == b'-' {
                    self.i += 1;
                }
                let ds = self.i;
                while self.peek().map_or(false, |c| c.is_ascii_digit()) {
                    self.i += 1;
                }
                let digits = &self.b[ds..self.i];
                if digits.is_empty() || (digits.len() > 1 && digits[0] == b'0') {
                    return Err(format!("number not in shortest decimal form at {start}"));
                }
                if &self.b[start..self.i] == b"-0" {
                    return Err("-0 is not shortest form".into());
                }
                Ok(N::Int(String::from_utf8_lossy(&self.b[start..self.i]).to_string()))
            }
            other => Err(format!("unexpected byte {other:?} at {}", self.i)),
        }
    }
}

fn parse_canonical(b: &[u8]) -> Result<N, String> {
    let mut p = P { b, i: 0 };
    let v = p.value()?;
    if p.i != b.len() {
        return Err(format!("trailing bytes at {}", p.i));
    }
    Ok(v)
}

// ---------------------------------------------------------------------------------------------
// the property on one value

fn nontrivial_obj(j: &J) -> bool {
    match j {
        J::Obj(m) => {
            let keys: Vec<String> = m.iter().map(|(k, _)| k.nfc()).collect();
            let odd = keys.len() >= 2
                && (keys.iter().any(|k| k.chars().any(|c| c < '#' || !c.is_ascii()))
                    || keys.iter().any(|a| keys.iter().any(|b| a != b && b.starts_with(a.as_str()))));
            odd || m.iter().any(|(_, v)| nontrivial_obj(v))
        }
        J::Arr(a) => a.iter().any(nontrivial_obj),
        _ => false,
    }
}

fn shape(j: &J, out: &mut String) {
    match j {
        J::Null => out.push('n'),
        J::Bool(_) => out.push('b'),
        J::I(_) | J::U(_) => out.push('i'),
        J::I128(_) | J::U128(_) => out.push('I'),
        J::F64(_) | J::F32(_) => out.push('f'),
        J::Str(s) => {
            out.push('s');
            out.push_str(&s.0.len().to_string());
        }
        J::Arr(a) => {
            out.push('[');
            for x in a {
                shape(x, out);
            }
            out.push(']');
        }
        J::Obj(m) => {
            out.push('{');
            for (k, v) in m {
                out.push_str(&k.nfc());
                out.push(':');
                shape(v, out);
            }
            out.push('}');
        }
    }
}

pub fn check_value(j: &J) -> Outcome {
    let mut o = Outcome::new();
    let mut sh = String::new();
    shape(j, &mut sh);
    o.shape = sh;
    let f = has_float(j);
    o.nontrivial = f || nontrivial_obj(j);
    if f {
        o.label("float");
    }
    if nontrivial_obj(j) {
        o.label("odd-keys");
    }
    let a = lib_canon(&Feed(j, Order::AsIs));
    if f {
        if let Ok(bytes) = a {
            o.fail(format!(
                "value contains a floating-point number but was serialised: {:?}",
                String::from_utf8_lossy(&bytes)
            ));
        }
        return o;
    }
    let a = match a {
        Ok(a) => a,
        Err(e) => {
            o.fail(format!("float-free value refused: {e}"));
            return o;
        }
    };
    let mut expect = Vec::new();
    ref_canon(&mut expect, j);
    if a != expect {
        o.fail(format!(
            "canonical form differs from the OLPC form: library {:?} reference {:?}",
            String::from_utf8_lossy(&a),
            String::from_utf8_lossy(&expect)
        ));
        return o;
    }
    for ord in [Order::Reversed, Order::Rotated] {
        match lib_canon(&Feed(j, ord)) {
            Ok(b) if b == a => {}
            Ok(b) => {
                o.fail(format!(
                    "output depends on member insertion order ({ord:?}): {:?} vs {:?}",
                    String::from_utf8_lossy(&a),
                    String::from_utf8_lossy(&b)
                ));
                return o;
            }
            Err(e) => {
                o.fail(format!("re-ordered value refused: {e}"));
                return o;
            }
        }
    }
    match parse_canonical(&a) {
        Ok(n) => {
            if n != normalise(j) {
                o.fail(format!(
                    "output does not parse back to the NFC-normalised value: {:?}",
                    String::from_utf8_lossy(&a)
                ));
            }
        }
        Err(e) => o.fail(format!("output is not well-formed canonical JSON ({e}): {:?}", String::from_utf8_lossy(&a))),
    }
    // the same value through serde_json::Value (how tough carries unknown members)
    if let Some(v) = to_value(j) {
        match lib_canon(&v) {
            Ok(b) if b == a => {}
            Ok(b) => o.fail(format!(
                "serde_json::Value path differs: {:?} vs {:?}",
                String::from_utf8_lossy(&a),
                String::from_utf8_lossy(&b)
            )),
            Err(e) => o.fail(format!("serde_json::Value path refused: {e}")),
        }
        o.label("value-path");
    }
    o
}

/// `None` when the value cannot be represented as serde_json::Value without loss
/// (128-bit integers, duplicate raw keys).
fn to_value(j: &J) -> Option<Value> {
    Some(match j {
        J::Null => Value::Null,
        J::Bool(b) => Value::Bool(*b),
        J::I(i) => Value::from(*i),
        J::U(u) => Value::from(*u),
        J::I128(_) | J::U128(_) | J::F64(_) | J::F32(_) => return None,
        J::Str(s) => Value::String(s.raw()),
        J::Arr(a) => Value::Array(a.iter().map(to_value).collect::<Option<Vec<_>>>()?),
        J::Obj(m) => {
            let mut map = serde_json::Map::new();
            for (k, v) in m {
                if map.insert(k.raw(), to_value(v)?).is_some() {
                    return None;
                }
            }
            Value::Object(map)
        }
    })
}

// ---------------------------------------------------------------------------------------------
// generators

fn atom() -> impl Strategy<Value = u16> {
    prop_oneof![
        4 => (b'a'..=b'e').prop_map(|c| c as u16),
        3 => prop::sample::select(vec![b' ' as u16, b'!' as u16, b'"' as u16, b'#' as u16, b'\\' as u16, b'/' as u16, b'~' as u16, 0x7f]),
        2 => 0u16..32,
        1 => 32u16..128,
        3 => 128u16..(N_ATOMS as u16),
    ]
}

fn s() -> impl Strategy<Value = S> {
    prop::collection::vec(atom(), 0..5).prop_map(S)
}

fn int_leaf() -> impl Strategy<Value = J> {
    prop_oneof![
        any::<i64>().prop_map(J::I),
        any::<u64>().prop_map(J::U),
        prop::sample::select(vec![0i64, -1, 1, i64::MIN, i64::MAX, 10, -10, 100]).prop_map(J::I),
        prop::sample::select(vec![u64::MAX, i64::MAX as u64 + 1, 0]).prop_map(J::U),
        any::<i128>().prop_map(J::I128),
        any::<u128>().prop_map(J::U128),
        prop::sample::select(vec![i128::MIN, i128::MAX, i64::MIN as i128 - 1, u64::MAX as i128 + 1]).prop_map(J::I128),
    ]
}

fn float_leaf() -> impl Strategy<Value = J> {
    prop_oneof![
        prop::sample::select(vec![0.0f64, -0.0, 1.0, -1.0, 0.5, 1e300, 1e-300, 123456789.0, f64::MAX, f64::MIN_POSITIVE])
            .prop_map(J::F64),
        any::<f64>().prop_filter("finite", |f| f.is_finite()).prop_map(J::F64),
        prop::sample::select(vec![0.0f32, 1.0, 2.5, f32::MAX]).prop_map(J::F32),
    ]
}

fn dedupe(m: Vec<(S, J)>) -> Vec<(S, J)> {
    let mut seen = std::collections::HashSet::new();
    m.into_iter().filter(|(k, _)| seen.insert(k.nfc())).collect()
}

fn related_keys() -> impl Strategy<Value = Vec<S>> {
    // keys that are prefixes of one another / differ in one low character: the interesting class
    (s(), prop::collection::vec(atom(), 1..4)).prop_map(|(base, tails)| {
        let mut v = vec![base.clone()];
        for t in tails {
            let mut k = base.0.clone();
            k.push(t);
            v.push(S(k));
        }
        v
    })
}

fn value(float_weight: u32) -> BoxedStrategy<J> {
    let leaf = prop_oneof![
        1 => Just(J::Null),
        1 => any::<bool>().prop_map(J::Bool),
        4 => int_leaf(),
        4 => s().prop_map(J::Str),
        float_weight => float_leaf(),
    ];
    leaf.prop_recursive(4, 40, 5, |inner| {
        prop_oneof![
            2 => prop::collection::vec(inner.clone(), 0..4).prop_map(J::Arr),
            3 => prop::collection::vec((s(), inner.clone()), 0..5).prop_map(|m| J::Obj(dedupe(m))),
            3 => (related_keys(), prop::collection::vec(inner, 4)).prop_map(|(ks, vs)| {
                J::Obj(dedupe(ks.into_iter().zip(vs).collect()))
            }),
        ]
    })
    .boxed()
}

// exhaustive key sets
const ALPHA8: &[&str] = &["a", "b", "!", "\"", "\\", "\u{1}", " ", "\u{e9}"];

/// a second alphabet around the two escaped characters: every neighbour class of '"' (0x22) and
/// '\\' (0x5c) in code-point order
const ALPHA_ESC: &[&str] = &["\"", "#", "0", "A", "[", "\\", "]", "a"];

/// a third alphabet across the UTF-8 length classes and the UTF-16 surrogate boundary (all NFC-inert):
/// code-point order, UTF-8 byte order and UTF-16 code-unit order disagree only between U+E000..U+FFFF
/// and the supplementary planes
const ALPHA_PLANES: &[&str] = &["a", "\u{80}", "\u{7ff}", "\u{800}", "\u{e000}", "\u{ffff}", "\u{10000}", "\u{1f37a}"];

fn all_keys_over(alpha: &[&str]) -> Vec<String> {
    let mut v = vec![String::new()];
    for a in alpha {
        v.push(a.to_string());
    }
    for a in alpha {
        for b in alpha {
            v.push(format!("{a}{b}"));
        }
    }
    v
}

fn all_keys() -> Vec<String> {
    all_keys_over(ALPHA8)
}

#[derive(Clone, Debug, Serialize, Deserialize)]
pub struct KeySet(pub Vec<String>);

struct OrderedObj<'a>(&'a [(&'a str, u64)]);
impl Serialize for OrderedObj<'_> {
    fn serialize<Z: Serializer>(&self, s: Z) -> Result<Z::Ok, Z::Error> {
        let mut m = s.serialize_map(Some(self.0.len()))?;
        for (k, v) in self.0 {
            m.serialize_entry(k, v)?;
        }
        m.end()
    }
}

fn permutations(n: usize) -> Vec<Vec<usize>> {
    match n {
        0 => vec![vec![]],
        1 => vec![vec![0]],
        2 => vec![vec![0, 1], vec![1, 0]],
        3 => vec![vec![0, 1, 2], vec![0, 2, 1], vec![1, 0, 2], vec![1, 2, 0], vec![2, 0, 1], vec![2, 1, 0]],
        _ => unreachable!(),
    }
}

fn check_keyset(ks: &KeySet, seen: &Mutex<HashMap<Vec<u8>, Vec<String>>>) -> Outcome {
    let mut o = Outcome::new();
    let keys = &ks.0;
    o.shape = format!("{keys:?}");
    o.nontrivial = keys.len() >= 2
        && (keys.iter().any(|k| k.chars().any(|c| c < '#' || !c.is_ascii()))
            || keys.iter().any(|a| keys.iter().any(|b| a != b && b.starts_with(a.as_str()))));
    // reference
    let mut sorted: Vec<(usize, &String)> = keys.iter().enumerate().collect();
    sorted.sort_by(|a, b| a.1.as_bytes().cmp(b.1.as_bytes()));
    let mut expect = Vec::new();
    expect.push(b'{');
    for (n, (i, k)) in sorted.iter().enumerate() {
        if n > 0 {
            expect.push(b',');
        }
        ref_string(&mut expect, k);
        expect.push(b':');
        expect.extend_from_slice(i.to_string().as_bytes());
    }
    expect.push(b'}');
    let perms = permutations(keys.len());
    o.weight = perms.len() as u64;
    for p in perms {
        let members: Vec<(&str, u64)> = p.iter().map(|i| (keys[*i].as_str(), *i as u64)).collect();
        match lib_canon(&OrderedObj(&members)) {
            Ok(b) => {
                if b != expect {
                    o.fail(format!(
                        "insertion order {p:?} of keys {keys:?}: library {:?}, OLPC form {:?}",
                        String::from_utf8_lossy(&b),
                        String::from_utf8_lossy(&expect)
                    ));
                    return o;
                }
            }
            Err(e) => {
                o.fail(format!("refused: {e}"));
                return o;
            }
        }
    }
    // injectivity over the whole enumeration (values are the member indices, so two different key
    // sets are different values)
    let mut sorted_keys: Vec<String> = keys.clone();
    sorted_keys.sort();
    let mut g = seen.lock().unwrap();
    if let Some(prev) = g.get(&expect) {
        if *prev != sorted_keys {
            o.fail(format!("two different objects share canonical bytes: {prev:?} and {sorted_keys:?}"));
        }
    } else {
        g.insert(expect, sorted_keys);
    }
    o
}

fn keysets(max: usize) -> Vec<KeySet> {
    keysets_over(&all_keys(), max)
}

fn keysets_over(keys: &[String], max: usize) -> Vec<KeySet> {
    let n = keys.len();
    let mut v = vec![KeySet(vec![])];
    for i in 0..n {
        v.push(KeySet(vec![keys[i].clone()]));
    }
    if max >= 2 {
        for i in 0..n {
            for j in i + 1..n {
                v.push(KeySet(vec![keys[i].clone(), keys[j].clone()]));
            }
        }
    }
    if max >= 3 {
        for i in 0..n {
            for j in i + 1..n {
                for k in j + 1..n {
                    v.push(KeySet(vec![keys[i].clone(), keys[j].clone(), keys[k].clone()]));
                }
            }
        }
    }
    v
}


// ---------------------------------------------------------------------------------------------
// objects whose keys collide after normalisation (outside the statement's domain for byte
// equality, but inside its last sentence: different values never share canonical bytes)

#[derive(Clone, Debug, Serialize, Deserialize)]
pub struct Collision {
    pub a: u16,
    pub b: u16,
    pub prefix: Vec<u16>,
    pub a_first: bool,
}

fn collisions() -> Vec<Collision> {
    let mut v = Vec::new();
    for a in 128..N_ATOMS {
        for b in 128..N_ATOMS {
            if a != b && atom_nfc(a) == atom_nfc(b) && atom_raw(a) != atom_raw(b) {
                for prefix in [vec![], vec![b'k' as u16], vec![b'"' as u16, 1]] {
                    for a_first in [false, true] {
                        v.push(Collision { a: a as u16, b: b as u16, prefix: prefix.clone(), a_first });
                    }
                }
            }
        }
    }
    v
}

fn check_collision(c: &Collision) -> Outcome {
    let mut o = Outcome::new();
    o.nontrivial = true;
    o.shape = format!("{:?}", c);
    let key = |x: u16| {
        let mut k = c.prefix.clone();
        k.push(x);
        S(k)
    };
    let (ka, kb) = (key(c.a), key(c.b));
    let both = if c.a_first { J::Obj(vec![(ka.clone(), J::U(1)), (kb.clone(), J::U(2))]) } else { J::Obj(vec![(kb.clone(), J::U(2)), (ka.clone(), J::U(1))]) };
    let only_a = J::Obj(vec![(ka, J::U(1))]);
    let only_b = J::Obj(vec![(kb, J::U(2))]);
    let out = lib_canon(&Feed(&both, Order::AsIs));
    match out {
        Err(_) => o.label("collision-refused"),
        Ok(bytes) => {
            for (single, what) in [(&only_a, "the first"), (&only_b, "the second")] {
                if lib_canon(&Feed(single, Order::AsIs)).ok().as_deref() == Some(&bytes[..]) {
                    o.fail(format!(
                        "an object with two members whose keys are equal after normalisation has the same canonical bytes as the object holding only {what} of them: {:?}",
                        String::from_utf8_lossy(&bytes)
                    ));
                }
            }
        }
    }
    o
}

// ---------------------------------------------------------------------------------------------

pub fn check(ctx: &Ctx) -> Vec<PartReport> {
    let mut out = Vec::new();
    let seen = Mutex::new(HashMap::new());
    out.push(run_part(
        ctx,
        PartSpec {
            name: "keysets",
            rule: "EXHAUSTIVE: every set of <=3 distinct keys drawn from all strings of length <=2 over {a,b,!,\",\\,U+0001,space,e-acute} (73 keys, 64898 sets), each fed to the serializer in every insertion order through a Serialize impl (evaluations count the orders); byte-compared with the reference OLPC form and checked for injectivity across the whole enumeration. Non-trivial: >=2 keys with one a prefix of another, or a key containing a character below '#' or outside ASCII; distinct = key set",
            mode: Mode::Enumerate { cases: keysets(3), complete: true },
            prop: Box::new(|k: &KeySet| check_keyset(k, &seen)),
            require: vec![],
        },
    ));
    let seen2 = Mutex::new(HashMap::new());
    out.push(run_part(
        ctx,
        PartSpec {
            name: "keysets-escapes",
            rule: "EXHAUSTIVE: the same enumeration (all sets of <=3 keys of length <=2, every insertion order) over a second alphabet {\", #, 0, A, [, \\, ], a}: the two characters that are escaped and their code-point neighbours on both sides, so that ordering by the escaped spelling instead of the key is visible. Non-trivial / distinct as in keysets",
            mode: Mode::Enumerate { cases: keysets_over(&all_keys_over(ALPHA_ESC), 3), complete: true },
            prop: Box::new(|k: &KeySet| check_keyset(k, &seen2)),
            require: vec![],
        },
    ));
    let seen3 = Mutex::new(HashMap::new());
    out.push(run_part(
        ctx,
        PartSpec {
            name: "keysets-planes",
            rule: "EXHAUSTIVE: the same enumeration over a third alphabet {a, U+0080, U+07FF, U+0800, U+E000, U+FFFF, U+10000, U+1F37A}: one character on each side of every UTF-8 length boundary and of the UTF-16 surrogate boundary, so that ordering by UTF-16 code units (or by anything but code points) is visible. Non-trivial / distinct as in keysets",
            mode: Mode::Enumerate { cases: keysets_over(&all_keys_over(ALPHA_PLANES), 3), complete: true },
            prop: Box::new(|k: &KeySet| check_keyset(k, &seen3)),
            require: vec![],
        },
    ));
    let n = ctx.cases(5_000_000, 30_000_000);
    out.push(run_part(
        ctx,
        PartSpec {
            name: "values",
            rule: "random JSON values (null, bool, i64/u64/i128/u128 incl. boundaries, strings, arrays, objects, depth <=4) whose strings and keys are sequences of atoms (all ASCII incl. control characters, combining sequences with hand-listed NFC); keys distinct after NFC by construction; about a fifth contain a finite float somewhere (must be refused). Oracles: byte equality with the reference canonicaliser, invariance under two member re-orderings at every level, the output parsed by an independent strict parser equals the NFC-normalised value (injectivity), same bytes through serde_json::Value. Non-trivial: contains a float, or an object with >=2 keys one of which is a prefix of another or contains a character below '#' or non-ASCII; distinct = structural shape with normalised keys",
            mode: Mode::Random { cases: n, strategy: Box::new(|| bx(value(1))) },
            prop: Box::new(check_value),
            require: vec![("float", (n as u64) / 50), ("odd-keys", (n as u64) / 20), ("value-path", (n as u64) / 10)],
        },
    ));
    out.push(run_part(
        ctx,
        PartSpec {
            name: "colliding-keys",
            rule: "EXHAUSTIVE over the atom table: every ordered pair of different spellings with the same NFC form (precomposed / decomposed, singleton decompositions, reordered marks), with three key prefixes and both insertion orders, as the two keys of one object. Oracle (last sentence of the statement): the object is refused, or at least its canonical bytes differ from those of the objects holding only one of the two members. Non-trivial: all; distinct = case",
            mode: Mode::Enumerate { cases: collisions(), complete: true },
            prop: Box::new(check_collision),
            require: vec![],
        },
    ));
    if ctx.tier == crate::engine::Tier::Thorough && !ctx.stop.load(std::sync::atomic::Ordering::Relaxed) {
        out.push(crate::fuzz::run(ctx, "C11", "cjson_diff", (5_000_000f64 * ctx.scale) as u64, 2048));
    }
    out
}

pub fn replay(_ctx: &Ctx, part: &str, case: &Value) -> Outcome {
    if let Some(t) = part.strip_prefix("fuzz:") {
        return crate::fuzz::replay(t, case["input_hex"].as_str().unwrap_or(""));
    }
    match part {
        "colliding-keys" => crate::engine::replay_case::<Collision>(case, check_collision),
        "keysets" | "keysets-escapes" | "keysets-planes" => {
            let seen = Mutex::new(HashMap::new());
            crate::engine::replay_case::<KeySet>(case, |k| check_keyset(k, &seen))
        }
        _ => crate::engine::replay_case::<J>(case, check_value),
    }
}
