//! C07 — a delegated role can only provide targets inside its delegated paths.
//!
//! Oracle: an independent pre-order lookup over the generated delegation tree. The glob primitive
//! is the harness' own matcher wherever the verdict does not depend on a wildcard consuming '/';
//! for the remaining (pattern, name) pairs — where the specification says SHOULD NOT and globset
//! does match — the verdict is taken from the library and the case is labelled accordingly.

use crate::cjson::{sha256, sha256_hex};
use crate::engine::{bx, pick_idx, run_part, Ctx, Mode, Outcome, PartReport, PartSpec};
use crate::forge::{self, classify, DelegNode, ErrClass, LoadOpts, PathSpec, Simple};
use crate::transport::{MemTransport, Resp};
use proptest::prelude::*;
use serde::{Deserialize, Serialize};
use serde_json::{json, Value};
use tough::{IntoVec, TargetName};

pub fn info() -> super::Info {
    super::Info {
        level: "exploration",
        assumptions: vec![
            "an entry is looked up by the exact (raw) name it is listed under; paths are matched against the resolved name",
            "whether '*' and '?' may match '/' is taken from the library (the specification says SHOULD NOT, globset matches); all other matching is decided by the harness' own matcher",
            "the `terminating` flag is not part of the statement",
        ],
    }
}

const NAMES: [&str; 12] = ["a", "b", "a/b", "ab", "a/c", "b/a", "c", "a/../b", "./a", "x/../a/b", "a/b/c", "ba"];
const PATTERNS: [&str; 12] = ["a", "a/b", "b", "ab", "*", "a/*", "?", "a?", "*/b", "a*", "b/*", "??"];

pub fn resolve(name: &str) -> String {
    let mut out: Vec<&str> = Vec::new();
    for seg in name.split('/') {
        match seg {
            "" | "." => {}
            ".." => {
                out.pop();
            }
            s => out.push(s),
        }
    }
    out.join("/")
}

fn glob(p: &[u8], n: &[u8], cross: bool) -> bool {
    match p.first() {
        None => n.is_empty(),
        Some(b'*') => {
            // any run
            for k in 0..=n.len() {
                if !cross && n[..k].contains(&b'/') {
                    break;
                }
                if glob(&p[1..], &n[k..], cross) {
                    return true;
                }
            }
            false
        }
        Some(b'?') => !n.is_empty() && (cross || n[0] != b'/') && glob(&p[1..], &n[1..], cross),
        Some(c) => !n.is_empty() && n[0] == *c && glob(&p[1..], &n[1..], cross),
    }
}

#[derive(Clone, Debug, Serialize, Deserialize, PartialEq, Eq)]
pub enum Paths {
    /// indices into PATTERNS
    Globs(Vec<u8>),
    /// (name index whose digest the prefix is cut from, prefix length 0..=3) or a random prefix
    Hash(Vec<(u8, u8)>),
    HashRandom(Vec<String>),
}

#[derive(Clone, Debug, Serialize, Deserialize, PartialEq, Eq)]
pub struct RoleGen {
    /// parent: monotone pick among the roles that may still take a child (top-level first)
    pub parent: u16,
    pub paths: Paths,
}

#[derive(Clone, Debug, Serialize, Deserialize, PartialEq, Eq)]
pub struct Case {
    pub consistent: bool,
    pub roles: Vec<RoleGen>,
    /// (role pick over top + roles, name index)
    pub placements: Vec<(u16, u8)>,
}

struct Tree {
    /// parent[i]: None = top-level targets
    parent: Vec<Option<usize>>,
    children_of_top: Vec<usize>,
    children: Vec<Vec<usize>>,
    paths: Vec<PathSpec>,
}

fn build_tree(case: &Case) -> Tree {
    let mut parent: Vec<Option<usize>> = Vec::new();
    let mut depth: Vec<usize> = Vec::new();
    let mut children: Vec<Vec<usize>> = Vec::new();
    let mut children_of_top: Vec<usize> = Vec::new();
    let mut paths = Vec::new();
    for (i, r) in case.roles.iter().enumerate() {
        // candidates: top (if fan-out < 3), then earlier roles with depth < 3 and fan-out < 3
        let mut cands: Vec<Option<usize>> = Vec::new();
        if children_of_top.len() < 3 {
            cands.push(None);
        }
        for j in 0..i {
            if depth[j] < 3 && children[j].len() < 3 {
                cands.push(Some(j));
            }
        }
        if cands.is_empty() {
            break;
        }
        let p = cands[pick_idx(r.parent, cands.len())];
        parent.push(p);
        depth.push(p.map_or(1, |j| depth[j] + 1));
        children.push(vec![]);
        match p {
            None => children_of_top.push(i),
            Some(j) => children[j].push(i),
        }
        paths.push(match &r.paths {
            Paths::Globs(g) => PathSpec::Paths(g.iter().map(|x| PATTERNS[*x as usize % PATTERNS.len()].to_string()).collect()),
            Paths::Hash(h) => PathSpec::HashPrefixes(
                h.iter()
                    .map(|(n, l)| {
                        let d = sha256_hex(resolve(NAMES[*n as usize % NAMES.len()]).as_bytes());
                        d[..(*l as usize % 4)].to_string()
                    })
                    .collect(),
            ),
            Paths::HashRandom(v) => PathSpec::HashPrefixes(v.clone()),
        });
    }
    Tree { parent, children_of_top, children, paths }
}

/// Some(true/false) when decided by the harness' matcher, None when it hinges on '/' under a wildcard
fn own_match(spec: &PathSpec, resolved: &str) -> Option<bool> {
    match spec {
        PathSpec::Paths(ps) => {
            let strict = ps.iter().any(|p| glob(p.as_bytes(), resolved.as_bytes(), false));
            let loose = ps.iter().any(|p| glob(p.as_bytes(), resolved.as_bytes(), true));
            if strict == loose {
                Some(strict)
            } else {
                None
            }
        }
        PathSpec::HashPrefixes(hs) => {
            let d = hex::encode(sha256(resolved.as_bytes()));
            Some(hs.iter().any(|h| d.starts_with(h.as_str())))
        }
    }
}

fn library_match(spec: &PathSpec, raw_name: &str) -> bool {
    let role = match spec {
        PathSpec::Paths(p) => json!({"name":"x","keyids":[],"threshold":1,"terminating":false,"paths":p}),
        PathSpec::HashPrefixes(p) => json!({"name":"x","keyids":[],"threshold":1,"terminating":false,"path_hash_prefixes":p}),
    };
    let d: tough::schema::Delegations = serde_json::from_value(json!({"keys":{}, "roles":[role]})).expect("delegations");
    d.target_is_delegated(&TargetName::new(raw_name).expect("name"))
}

struct Model<'a> {
    tree: &'a Tree,
    /// listing[role+1] (0 = top): raw name -> placement index
    listing: Vec<std::collections::BTreeMap<String, usize>>,
    used_library: std::cell::Cell<bool>,
}

impl Model<'_> {
    fn matches(&self, role: usize, raw: &str) -> bool {
        match own_match(&self.tree.paths[role], &resolve(raw)) {
            Some(b) => b,
            None => {
                self.used_library.set(true);
                library_match(&self.tree.paths[role], raw)
            }
        }
    }
    fn find(&self, role: Option<usize>, raw: &str) -> Option<usize> {
        let li = role.map_or(0, |r| r + 1);
        if let Some(p) = self.listing[li].get(raw) {
            return Some(*p);
        }
        let kids = match role {
            None => &self.tree.children_of_top,
            Some(r) => &self.tree.children[r],
        };
        for k in kids {
            if !self.matches(*k, raw) {
                continue;
            }
            if let Some(p) = self.find(Some(*k), raw) {
                return Some(p);
            }
        }
        None
    }
}

fn role_name(i: usize) -> String {
    // listed order and alphabetical order of sibling roles must not coincide: 0..7 -> 3,1,6,4,2,0,5
    format!("r{}", if i < 7 { (i * 5 + 3) % 7 } else { i })
}

pub fn prop(case: &Case) -> Outcome {
    let mut o = Outcome::new();
    crate::rt::set_now(crate::rt::t0());
    let tree = build_tree(case);
    let nroles = tree.parent.len();
    // placements: (role slot 0=top, raw name, content)
    let mut listing: Vec<std::collections::BTreeMap<String, usize>> = vec![Default::default(); nroles + 1];
    let mut placements: Vec<(usize, String, Vec<u8>)> = Vec::new();
    for (rp, ni) in &case.placements {
        let slot = pick_idx(*rp, nroles + 1);
        let raw = NAMES[*ni as usize % NAMES.len()].to_string();
        let idx = placements.len();
        let content = format!("placement {idx} in slot {slot} as {raw}").into_bytes();
        if listing[slot].contains_key(&raw) {
            continue; // a JSON object lists a name once
        }
        listing[slot].insert(raw.clone(), idx);
        placements.push((slot, raw, content));
    }
    let model = Model { tree: &tree, listing, used_library: std::cell::Cell::new(false) };

    // forge the repository
    fn node(i: usize, tree: &Tree, placements: &[(usize, String, Vec<u8>)]) -> DelegNode {
        let mut n = DelegNode::new(&role_name(i), 4 + (i % 6), tree.paths[i].clone());
        n.targets = placements.iter().filter(|p| p.0 == i + 1).map(|p| (p.1.clone(), p.2.clone())).collect();
        n.children = tree.children[i].iter().map(|c| node(*c, tree, placements)).collect();
        n
    }
    let mut s = Simple::basic(case.consistent);
    s.targets = placements.iter().filter(|p| p.0 == 0).map(|p| (p.1.clone(), p.2.clone())).collect();
    s.delegs = tree.children_of_top.iter().map(|c| node(*c, &tree, &placements)).collect();
    let built = s.build();
    let mem = MemTransport::new();
    built.install_meta(&mem);

    // expectation for load
    let orphan = placements.iter().find(|p| model.find(None, &p.1).is_none());
    let outside = placements.iter().any(|p| {
        // listed by a role whose own path set, or an ancestor's, does not match
        let mut r = if p.0 == 0 { None } else { Some(p.0 - 1) };
        let mut bad = false;
        while let Some(i) = r {
            if !model.matches(i, &p.1) {
                bad = true;
            }
            r = tree.parent[i];
        }
        bad
    });
    let multi = {
        let mut names: Vec<&String> = placements.iter().map(|p| &p.1).collect();
        names.sort();
        names.windows(2).any(|w| w[0] == w[1])
    };
    o.nontrivial = outside || multi;
    if outside {
        o.label("placement-outside-paths");
    }
    if multi {
        o.label("name-in-several-roles");
    }
    o.label(format!("roles:{nroles}"));
    o.label(if orphan.is_some() { "expect-refused" } else { "expect-loads" });
    o.shape = format!("{:?}", case);

    let r = forge::load(&mem, &built.shipped(1), &LoadOpts::default());
    if model.used_library.get() {
        o.label("primitive-from-library");
    }
    let repo = match (r, orphan) {
        (Ok(_), Some(p)) => {
            o.fail(format!(
                "repository loaded although {:?} listed by {} is reached by no authorized chain (paths {:?})",
                p.1,
                if p.0 == 0 { "targets".to_string() } else { role_name(p.0 - 1) },
                tree.paths
            ));
            return o;
        }
        (Err(e), None) => {
            o.fail(format!("every listed target is reachable through matching delegations, but the repository was refused: {e}"));
            return o;
        }
        (Err(e), Some(_)) => {
            if classify(&e) != ErrClass::InvalidPath {
                o.fail(format!("refused, but not for an unreachable target: {e}"));
            }
            return o;
        }
        (Ok(repo), None) => repo,
    };
    // every vocabulary name: which entry is enforced
    for raw in NAMES {
        let expected = model.find(None, raw);
        let name = TargetName::new(raw).unwrap();
        let resolved = resolve(raw);
        match expected {
            None => {
                let found = crate::rt::block_on(async { repo.read_target(&name).await.map(|s| s.is_some()) });
                match found {
                    Ok(false) => {}
                    Ok(true) => {
                        o.fail(format!("{raw:?}: no authorized entry in pre-order, but read_target offers data (paths {:?})", tree.paths));
                        return o;
                    }
                    Err(e) => {
                        o.fail(format!("{raw:?}: read_target failed instead of reporting 'not found': {e}"));
                        return o;
                    }
                }
            }
            Some(p) => {
                o.label("lookup-found");
                if placements[p].0 != 0 {
                    o.label("served-from-delegated-role");
                }
                // candidates: contents of all placements with the same resolved name
                for (qi, q) in placements.iter().enumerate() {
                    if resolve(&q.1) != resolved {
                        continue;
                    }
                    let file = if case.consistent { format!("{}.{}", sha256_hex(&placements[p].2), resolved) } else { resolved.clone() };
                    mem.set_target(&file, Resp::body(q.2.clone()));
                    mem.clear_log();
                    let got: Result<Option<Vec<u8>>, String> = crate::rt::block_on(async {
                        match repo.read_target(&name).await {
                            Ok(Some(s)) => s.into_vec().await.map(Some).map_err(|e| e.to_string()),
                            Ok(None) => Ok(None),
                            Err(e) => Err(e.to_string()),
                        }
                    });
                    let reqs = mem.target_requests();
                    if reqs.len() != 1 || reqs[0] != file {
                        o.fail(format!("{raw:?}: expected a request for {file:?} (entry of placement {p}), got {reqs:?}"));
                        return o;
                    }
                    match (qi == p, got) {
                        (true, Ok(Some(b))) if b == placements[p].2 => {}
                        (true, other) => {
                            o.fail(format!(
                                "{raw:?}: the first entry in pre-order is placement {p} ({:?}); serving its content gave {:?}",
                                placements[p],
                                other.map(|x| x.map(|b| String::from_utf8_lossy(&b).to_string()))
                            ));
                            return o;
                        }
                        (false, Err(_)) => {}
                        (false, Ok(x)) => {
                            o.fail(format!(
                                "{raw:?}: content of placement {qi} ({:?}) was accepted, but the entry that must be enforced is placement {p} ({:?}); got {:?}",
                                q,
                                placements[p],
                                x.map(|b| String::from_utf8_lossy(&b).to_string())
                            ));
                            return o;
                        }
                    }
                }
            }
        }
    }
    o
}

fn paths() -> impl Strategy<Value = Paths> {
    prop_oneof![
        6 => prop::collection::vec(0u8..PATTERNS.len() as u8, 1..=3).prop_map(Paths::Globs),
        1 => Just(Paths::Globs(vec![])),
        3 => prop::collection::vec((0u8..NAMES.len() as u8, 0u8..4), 1..=2).prop_map(Paths::Hash),
        1 => prop::collection::vec("[0-9a-f]{1,2}", 1..=3).prop_map(Paths::HashRandom),
    ]
}

fn case_strategy() -> impl Strategy<Value = Case> {
    (
        any::<bool>(),
        prop::collection::vec((any::<u16>(), paths()).prop_map(|(parent, paths)| RoleGen { parent, paths }), 0..=7),
        prop::collection::vec((any::<u16>(), 0u8..NAMES.len() as u8), 0..=6),
    )
        .prop_map(|(consistent, roles, placements)| Case { consistent, roles, placements })
}

pub fn check(ctx: &Ctx) -> Vec<PartReport> {
    let n = ctx.cases(24_000, 200_000);
    vec![run_part(
        ctx,
        PartSpec {
            name: "trees",
            rule: "random delegation trees (<=7 roles, depth <=3, fan-out <=3) whose path sets are 0..3 of {a, a/b, b, ab, *, a/*, ?, a?, */b, a*, b/*, ??} or 1..3 hash prefixes (0..3 hex digits of the SHA-256 of a vocabulary name, or random); up to 6 placements (role, name) over the vocabulary {a, b, a/b, ab, a/c, b/a, c, a/../b, ./a, x/../a/b, a/b/c, ba}, each with distinct content. Oracle: pre-order model; load fails iff some listed name is found by nobody; for every vocabulary name read_target yields 'not found' iff the model finds nothing, otherwise only the content of the model's entry verifies (every other placement of the same resolved name is served and must be refused) and, under consistent snapshots, the digest-prefixed file of that entry is requested. Non-trivial: a placement outside its role's (or an ancestor's) paths, or a name listed by several roles; distinct = whole case",
            mode: Mode::Random { cases: n, strategy: Box::new(|| bx(case_strategy())) },
            prop: Box::new(prop),
            require: vec![
                ("expect-refused", n as u64 / 20),
                ("expect-loads", n as u64 / 5),
                ("placement-outside-paths", n as u64 / 20),
                ("name-in-several-roles", n as u64 / 20),
                ("served-from-delegated-role", n as u64 / 20),
                ("primitive-from-library", n as u64 / 200),
            ],
        },
    )]
}

pub fn replay(_ctx: &Ctx, _part: &str, case: &Value) -> Outcome {
    crate::engine::replay_case::<Case>(case, prop)
}
