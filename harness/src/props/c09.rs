//! C09 — work and data taken from an untrusted repository are bounded.

use crate::engine::{bx, pick_idx, run_part, Ctx, Mode, Outcome, PartReport, PartSpec};
use crate::forge::{self, classify, DelegNode, ErrClass, LoadOpts, PathSpec, RootSpec, Simple};
use crate::transport::{Chunking, MemTransport, Resp};
use proptest::prelude::*;
use serde::{Deserialize, Serialize};
use serde_json::{json, Value};
use std::collections::BTreeMap;
use std::sync::Arc;
use tough::Limits;

pub const KF_CYCLE: &str = "delegation-cycle-fetches-forever";

pub fn info() -> super::Info {
    super::Info {
        level: "exploration",
        assumptions: vec![
            "request bound used by the oracle: 3 (timestamp, snapshot, targets) + root requests + the number of simple (non-repeating) delegation paths of the published graph: a client that loads a role once per path, or once globally, stays below it",
            "bytes pulled from one response may exceed the bound by at most one transport chunk (the chunk that crosses the bound is discarded)",
        ],
    }
}

// ---------------------------------------------------------------------------------------------
// part 1: size limits and hostile responses

#[derive(Clone, Copy, Debug, Serialize, Deserialize, PartialEq, Eq)]
pub enum Lim {
    Zero,
    SizeMinus1,
    Size,
    SizePlus1,
    Default,
}

#[derive(Clone, Copy, Debug, Serialize, Deserialize, PartialEq, Eq)]
pub enum Hostile {
    None,
    /// append n spaces (still valid JSON) to the file answering this role's request
    Pad(u8, u16),
    /// answer this role's request with an endless stream
    Endless(u8),
}

#[derive(Clone, Debug, Serialize, Deserialize, PartialEq, Eq)]
pub struct LimitCase {
    pub consistent: bool,
    pub hops: u8,
    /// limits for root, timestamp, snapshot, targets
    pub lims: [Lim; 4],
    pub pin_snap_len: bool,
    pub pin_snap_hash: bool,
    pub pin_targets_len: bool,
    pub pin_targets_hash: bool,
    pub pin_deleg_len: bool,
    /// number of targets in the delegated role: makes it smaller or larger than targets.json
    pub deleg_targets: u8,
    pub chunk: u16,
    pub hostile: Hostile,
}

/// role index -> file names in fetch order: 0 root (the newest fetched one), 1 timestamp, 2 snapshot, 3 targets, 4 d1, 5 d2
const ROLE_NAMES: [&str; 6] = ["root", "timestamp", "snapshot", "targets", "d1", "d2"];

pub fn limit_prop(case: &LimitCase) -> Outcome {
    let mut o = Outcome::new();
    crate::rt::set_now(crate::rt::t0());
    let hops = case.hops.min(2) as u64;
    let mut s = Simple::basic(case.consistent);
    s.roots = (1..=hops + 1).map(|v| RootSpec::basic(v, case.consistent)).collect();
    s.targets = vec![("t.txt".into(), b"t".to_vec())];
    let mut d2 = DelegNode::new("d2", 5, PathSpec::Paths(vec!["d/e/*".into()]));
    d2.targets = vec![("d/e/x".into(), b"x".to_vec())];
    let mut d1 = DelegNode::new("d1", 4, PathSpec::Paths(vec!["d/*".into()]));
    d1.targets = (0..case.deleg_targets as usize % 40).map(|i| (format!("d/file-{i:03}.bin"), format!("content {i}").into_bytes())).collect();
    d1.children = vec![d2];
    s.delegs = vec![d1];
    s.pin_snap_len = case.pin_snap_len;
    s.pin_snap_hash = case.pin_snap_hash;
    s.pin_targets_len = case.pin_targets_len;
    s.pin_targets_hash = case.pin_targets_hash;
    s.pin_deleg_len = case.pin_deleg_len;
    let built = s.build();
    let file_of = |role: usize| -> String {
        let c = case.consistent;
        match role {
            0 => format!("{}.root.json", hops + 1),
            1 => "timestamp.json".into(),
            2 => if c { "1.snapshot.json".into() } else { "snapshot.json".into() },
            3 => if c { "1.targets.json".into() } else { "targets.json".into() },
            4 => if c { "1.d1.json".into() } else { "d1.json".into() },
            _ => if c { "1.d2.json".into() } else { "d2.json".into() },
        }
    };
    let size = |role: usize| built.meta[&file_of(role)].len() as u64;
    // the size that a per-role limit is compared with: the largest file it governs
    let governed: [u64; 4] = [
        (2..=hops + 1).map(|v| built.meta[&format!("{v}.root.json")].len() as u64).max().unwrap_or(size(0)),
        size(1),
        size(2),
        size(3).max(size(4)).max(size(5)),
    ];
    let dflt = Limits::default();
    let pick = |l: Lim, sz: u64, d: u64| match l {
        Lim::Zero => 0,
        Lim::SizeMinus1 => sz.saturating_sub(1),
        Lim::Size => sz,
        Lim::SizePlus1 => sz + 1,
        Lim::Default => d,
    };
    let limits = Limits {
        max_root_size: pick(case.lims[0], governed[0], dflt.max_root_size),
        max_timestamp_size: pick(case.lims[1], governed[1], dflt.max_timestamp_size),
        max_snapshot_size: pick(case.lims[2], governed[2], dflt.max_snapshot_size),
        max_targets_size: pick(case.lims[3], governed[3], dflt.max_targets_size),
        max_root_updates: 16,
    };
    // what is served
    let chunk = (case.chunk as usize).max(1);
    let mem = MemTransport::with_caps(300, 32 << 20);
    let mut served_len: BTreeMap<String, u64> = BTreeMap::new();
    let mut padded: Option<usize> = None;
    let mut endless: Option<usize> = None;
    for (f, b) in &built.meta {
        let mut bytes = b.clone();
        let role = (0..6).find(|r| file_of(*r) == *f);
        match (case.hostile, role) {
            (Hostile::Pad(r, n), Some(role)) if r as usize % 6 == role && !(role == 0 && hops == 0) => {
                bytes.extend(std::iter::repeat(b' ').take(n as usize + 1));
                padded = Some(role);
            }
            (Hostile::Endless(r), Some(role)) if r as usize % 6 == role && !(role == 0 && hops == 0) => {
                endless = Some(role);
                mem.set_meta(f, Resp::Endless(chunk));
                served_len.insert(f.clone(), u64::MAX);
                continue;
            }
            _ => {}
        }
        served_len.insert(f.clone(), bytes.len() as u64);
        mem.set_meta(f, Resp::Body(Arc::new(bytes), Chunking::Fixed(chunk)));
    }
    // bound per fetched file
    let bound = |f: &str| -> u64 {
        if f.ends_with(".root.json") {
            limits.max_root_size
        } else if f == "timestamp.json" {
            limits.max_timestamp_size
        } else if f.ends_with("snapshot.json") {
            if case.pin_snap_len { size(2) } else { limits.max_snapshot_size }
        } else if f.ends_with("targets.json") {
            if case.pin_targets_len { size(3) } else { limits.max_targets_size }
        } else if f.ends_with("d1.json") {
            if case.pin_deleg_len { size(4) } else { limits.max_targets_size }
        } else {
            if case.pin_deleg_len { size(5) } else { limits.max_targets_size }
        }
    };
    // expectation: every file the cycle uses is within its bound, and a padded file does not
    // contradict a pinned digest
    let fetched: Vec<String> = (2..=hops + 1).map(|v| format!("{v}.root.json")).chain((1..6).map(file_of)).collect();
    let within = fetched.iter().all(|f| served_len[f] <= bound(f));
    let hash_conflict = match padded {
        Some(2) => case.pin_snap_hash,
        Some(3) => case.pin_targets_hash,
        _ => false,
    };
    let expect_ok = within && !hash_conflict;

    let r = forge::load(&mem, &built.shipped(1), &LoadOpts { limits: Some(limits), ..Default::default() });
    o.label(if expect_ok { "expect-ok" } else { "expect-refused" });
    if size(4) > size(3) {
        o.label("delegated-larger-than-targets-json");
    }
    if padded.is_some() {
        o.label("padded");
    }
    if endless.is_some() {
        o.label("endless");
    }
    let at_bound = fetched.iter().any(|f| served_len[f] == bound(f));
    if at_bound {
        o.label("file-exactly-at-bound");
    }
    o.nontrivial = !within || at_bound || padded.is_some() || endless.is_some();
    o.shape = format!("{:?}", case);
    match (&r, expect_ok) {
        (Ok(_), true) => {}
        (Ok(_), false) => {
            let over: Vec<String> = fetched.iter().filter(|f| served_len[*f] > bound(f)).map(|f| format!("{f}: {} > {}", served_len[f], bound(f))).collect();
            o.fail(format!("loaded although a file exceeds its bound or contradicts its pinned digest: over-bound {over:?}, padded role {:?}; limits {limits:?}", padded.map(|r| ROLE_NAMES[r])));
        }
        (Err(e), true) => o.fail(format!("every file is within its own bound (sizes {:?}, limits {limits:?}, pins snap {} targets {} deleg {}) but the repository was refused: {e}", fetched.iter().map(|f| (f.as_str(), served_len[f])).collect::<Vec<_>>(), case.pin_snap_len, case.pin_targets_len, case.pin_deleg_len)),
        (Err(e), false) => {
            let c = classify(e);
            if !matches!(c, ErrClass::MaxSize | ErrClass::HashMismatch) {
                o.fail(format!("refused, but not for size or digest: {c:?} {e}"));
            }
        }
    }
    // bytes pulled per request
    for (url, pulled) in mem.log() {
        let f = url.strip_prefix(crate::transport::META_BASE).unwrap_or(&url);
        if !served_len.contains_key(f) {
            continue;
        }
        let b = bound(f);
        if pulled > b.saturating_add(chunk as u64) {
            o.fail(format!("{pulled} bytes were pulled for {f}, whose bound is {b} (chunk size {chunk})"));
        }
    }
    if mem.overflowed() {
        o.fail("the harness' request or byte cap was reached: the client did not bound its work".to_string());
    }
    o
}

// ---------------------------------------------------------------------------------------------
// part 2: root update limit

#[derive(Clone, Debug, Serialize, Deserialize, PartialEq, Eq)]
pub struct RootsCase {
    pub consistent: bool,
    pub available_hops: u8,
    pub max_root_updates: u8,
}

pub fn roots_prop(case: &RootsCase) -> Outcome {
    let mut o = Outcome::new();
    crate::rt::set_now(crate::rt::t0());
    let k = case.available_hops as u64;
    let m = case.max_root_updates as u64;
    let mut s = Simple::basic(case.consistent);
    s.roots = (1..=k + 1).map(|v| RootSpec::basic(v, case.consistent)).collect();
    let built = s.build();
    let mem = MemTransport::with_caps(300, 32 << 20);
    built.install(&mem);
    let limits = Limits { max_root_updates: m, ..Limits::default() };
    let r = forge::load(&mem, &built.shipped(1), &LoadOpts { limits: Some(limits), ..Default::default() });
    let root_reqs = mem.meta_requests().iter().filter(|f| f.ends_with(".root.json")).count() as u64;
    o.nontrivial = k >= m || k + 1 == m;
    o.label(if m > k { "limit-above-hops" } else { "limit-reached" });
    o.shape = format!("{:?}", case);
    if root_reqs > m {
        o.fail(format!("{root_reqs} newer-root files were requested, max_root_updates is {m}"));
    }
    match &r {
        Ok(repo) => {
            let v = repo.root().signed.version.get();
            if v > 1 + m {
                o.fail(format!("trusted root v{v} after more than max_root_updates = {m} updates"));
            }
            if m > k && v != k + 1 {
                o.fail(format!("trusted root v{v}, {} is available and within the limit", k + 1));
            }
        }
        Err(e) => {
            if m > k {
                o.fail(format!("{k} root updates are available, max_root_updates = {m} is above that, but the load failed: {e}"));
            } else if classify(e) != ErrClass::MaxUpdates {
                o.fail(format!("expected the max-root-updates failure, got: {e}"));
            }
        }
    }
    o
}

// ---------------------------------------------------------------------------------------------
// part 3: delegation graphs

#[derive(Clone, Debug, Serialize, Deserialize, PartialEq, Eq)]
pub struct GraphCase {
    pub consistent: bool,
    /// number of delegated roles (1..=5)
    pub roles: u8,
    /// edges: (from: 0 = top-level targets, i = role i-1; to: role index), picks mapped monotonically
    pub edges: Vec<(u16, u16)>,
}

struct Graph {
    n: usize,
    /// adjacency in listed order; node 0 = top, node i = role i-1
    adj: Vec<Vec<usize>>,
}

fn graph(case: &GraphCase) -> Graph {
    let n = case.roles.clamp(1, 5) as usize;
    let mut adj: Vec<Vec<usize>> = vec![vec![]; n + 1];
    for (f, t) in &case.edges {
        let from = pick_idx(*f, n + 1);
        let to = 1 + pick_idx(*t, n);
        if !adj[from].contains(&to) && adj[from].len() < 3 {
            adj[from].push(to);
        }
    }
    Graph { n, adj }
}

/// number of simple paths starting at the top node (each path of length >= 1 is one role fetch for
/// a per-path client), and whether a cycle is reachable from the top
fn simple_paths(g: &Graph) -> (u64, bool) {
    fn walk(g: &Graph, node: usize, on_path: &mut Vec<usize>, count: &mut u64, cyclic: &mut bool) {
        for next in &g.adj[node] {
            if on_path.contains(next) {
                *cyclic = true;
                continue;
            }
            *count += 1;
            on_path.push(*next);
            walk(g, *next, on_path, count, cyclic);
            on_path.pop();
        }
    }
    let mut count = 0;
    let mut cyclic = false;
    walk(g, 0, &mut vec![0], &mut count, &mut cyclic);
    (count, cyclic)
}

pub fn graph_prop(case: &GraphCase, known_cycle: bool) -> Outcome {
    let mut o = Outcome::new();
    crate::rt::set_now(crate::rt::t0());
    let g = graph(case);
    let (paths, cyclic) = simple_paths(&g);
    // role names that are and are not changed by the file-name encoding
    let name = |i: usize| match i % 5 {
        0 => format!("g{i}"),
        1 => format!("g {i}"),
        2 => format!("g/{i}"),
        3 => format!("g\u{e9}{i}"),
        _ => format!("g%{i}"),
    };
    let stub = |to: usize| DelegNode::new(&name(to), 4 + to, PathSpec::Paths(vec!["*".into()]));
    // role documents
    let mut role_files: BTreeMap<String, Vec<u8>> = BTreeMap::new();
    let mut snap_meta: Vec<(String, Value)> = Vec::new();
    for i in 1..=g.n {
        let children: Vec<DelegNode> = g.adj[i].iter().map(|t| stub(*t)).collect();
        let signed = forge::targets_signed(1, crate::rt::t0() + chrono::Duration::days(365), &[], &children, &[]);
        let doc = forge::sign_with(&signed, &[4 + i]);
        let bytes = forge::to_bytes(&doc, forge::Style::Compact);
        snap_meta.push((format!("{}.json", name(i)), forge::meta_entry(1, &bytes, false, false)));
        let enc = forge::enc_name(&name(i));
        role_files.insert(if case.consistent { format!("1.{enc}.json") } else { format!("{enc}.json") }, bytes);
    }
    let top_children: Vec<DelegNode> = g.adj[0].iter().map(|t| stub(*t)).collect();
    let mut s = Simple::basic(case.consistent);
    s.targets = vec![("t".into(), b"t".to_vec())];
    let built = s.build_full(
        &|role, signed| {
            if role == "targets" && !top_children.is_empty() {
                signed["delegations"] = forge::delegations_obj(&top_children);
            }
            if role == "snapshot" {
                for (k, v) in &snap_meta {
                    signed["meta"][k] = v.clone();
                }
            }
        },
        &|_, _, _| None,
    );
    let mem = MemTransport::with_caps(300, 32 << 20);
    built.install_meta(&mem);
    for (f, b) in &role_files {
        mem.set_meta(f, Resp::body(b.clone()));
    }
    // run on a thread with a roomy stack: an unguarded client recurses once per request
    let shipped = built.shipped(1);
    let mem2 = mem.clone();
    let r = std::thread::Builder::new()
        .stack_size(256 << 20)
        .spawn(move || {
            crate::rt::set_now(crate::rt::t0());
            forge::load(&mem2, &shipped, &LoadOpts::default()).map(|_| ()).map_err(|e| e.to_string())
        })
        .expect("spawn")
        .join()
        .unwrap_or_else(|_| Err("client thread panicked".into()));
    let total = mem.request_count() as u64;
    let root_reqs = mem.meta_requests().iter().filter(|f| f.ends_with(".root.json")).count() as u64;
    let bound = 3 + root_reqs + paths;
    o.label(if cyclic { "cyclic" } else { "acyclic" });
    if g.adj.iter().enumerate().any(|(i, a)| i > 0 && a.contains(&i)) {
        o.label("self-delegation");
    }
    let indeg: Vec<usize> = (1..=g.n).map(|t| g.adj.iter().filter(|a| a.contains(&t)).count()).collect();
    if !cyclic && indeg.iter().any(|d| *d >= 2) {
        o.label("diamond");
    }
    o.nontrivial = cyclic || indeg.iter().any(|d| *d >= 2);
    o.shape = format!("{:?}|{:?}", g.adj, case.consistent);
    if mem.overflowed() || total > bound {
        if cyclic && known_cycle {
            o.known_hits += 1;
            o.label("known:cycle");
            return o;
        }
        o.fail(format!(
            "{total} requests for a repository that publishes {} delegated roles and {paths} simple delegation paths (bound {bound}){}; graph {:?} [{}]",
            g.n,
            if mem.overflowed() { "; the harness' request cap stopped the client" } else { "" },
            g.adj,
            if cyclic { KF_CYCLE } else { "acyclic" }
        ));
        return o;
    }
    if !cyclic {
        if let Err(e) = r {
            o.fail(format!("legitimate acyclic delegation graph {:?} refused: {e}", g.adj));
        }
    }
    o
}

// ---------------------------------------------------------------------------------------------

fn lim() -> impl Strategy<Value = Lim> {
    prop_oneof![1 => Just(Lim::Zero), 2 => Just(Lim::SizeMinus1), 3 => Just(Lim::Size), 2 => Just(Lim::SizePlus1), 4 => Just(Lim::Default)]
}

fn limit_strategy() -> impl Strategy<Value = LimitCase> {
    (
        any::<bool>(),
        0u8..=2,
        // mostly one tight limit at a time, so that the other roles do not mask it
        (0usize..4, lim(), prop::bool::weighted(0.2), [lim(), lim(), lim(), lim()]).prop_map(|(which, l, all, ls)| {
            if all {
                ls
            } else {
                let mut a = [Lim::Default; 4];
                a[which] = l;
                a
            }
        }),
        (any::<bool>(), any::<bool>(), any::<bool>(), any::<bool>(), any::<bool>()),
        prop_oneof![Just(0u8), Just(1u8), 2u8..40],
        prop::sample::select(vec![1u16, 7, 64, 1000, 60000]),
        prop_oneof![
            3 => Just(Hostile::None),
            2 => (0u8..6, prop_oneof![Just(0u16), 1u16..3000]).prop_map(|(r, n)| Hostile::Pad(r, n)),
            1 => (0u8..6).prop_map(Hostile::Endless),
        ],
    )
        .prop_map(|(consistent, hops, lims, (a, b, c, d, e), deleg_targets, chunk, hostile)| LimitCase {
            consistent,
            hops,
            lims,
            pin_snap_len: a,
            pin_snap_hash: b,
            pin_targets_len: c,
            pin_targets_hash: d,
            pin_deleg_len: e,
            deleg_targets,
            chunk,
            hostile,
        })
}

fn graph_strategy() -> impl Strategy<Value = GraphCase> {
    (any::<bool>(), 1u8..=5, prop::collection::vec((any::<u16>(), any::<u16>()), 1..9)).prop_map(|(consistent, roles, edges)| GraphCase { consistent, roles, edges })
}

pub fn check(ctx: &Ctx) -> Vec<PartReport> {
    let known_cycle = ctx.known.is_known("C09", KF_CYCLE);
    let mut out = Vec::new();
    let n = ctx.cases(15_000, 100_000);
    out.push(run_part(
        ctx,
        PartSpec {
            name: "limits",
            rule: "random: root chain of 0..2 hops, a depth-2 delegation whose first role holds 0..39 targets (smaller and larger than targets.json), per-role limits from {0, size-1, size, size+1, default} (mostly one tight limit at a time), length/digest pins present or absent at timestamp->snapshot, snapshot->targets and for delegated roles, transport chunk size 1..60000, and optionally one hostile answer (the file padded with 1..3000 spaces, or an endless stream) for the request of one role. Oracle: Ok iff every served file is within its bound (the pinned length when the trusted parent pins one, else the configured limit of that role) and does not contradict a pinned digest; bytes pulled per request <= bound + one chunk; the harness' caps are never reached. Non-trivial: a file over or exactly at its bound, or a hostile answer; distinct = whole case",
            mode: Mode::Random { cases: n, strategy: Box::new(|| bx(limit_strategy())) },
            prop: Box::new(limit_prop),
            require: vec![
                ("expect-ok", n as u64 / 10),
                ("expect-refused", n as u64 / 10),
                ("delegated-larger-than-targets-json", n as u64 / 10),
                ("file-exactly-at-bound", n as u64 / 20),
                ("endless", n as u64 / 40),
                ("padded", n as u64 / 20),
            ],
        },
    ));
    let mut cases = Vec::new();
    for consistent in [false, true] {
        for k in 0..=5u8 {
            for m in 0..=7u8 {
                cases.push(RootsCase { consistent, available_hops: k, max_root_updates: m });
            }
        }
    }
    out.push(run_part(
        ctx,
        PartSpec {
            name: "root-updates",
            rule: "EXHAUSTIVE: chains of 0..5 valid newer roots x max_root_updates 0..7 x both snapshot modes. Oracle: never more than max_root_updates N.root.json requests; never a trusted root beyond 1+max_root_updates; a limit above the number of available updates must load the newest root; otherwise the max-root-updates failure. Non-trivial: the limit is reached or exactly one above the available hops; distinct = case",
            mode: Mode::Enumerate { cases, complete: true },
            prop: Box::new(roots_prop),
            require: vec![],
        },
    ));
    let n3 = ctx.cases(4_500, 30_000);
    out.push(run_part(
        ctx,
        PartSpec {
            name: "delegation-graphs",
            rule: "random delegation graphs over 1..5 delegated roles with up to 8 edges (from the top-level role or any role, to any role: self-delegation, mutual delegation and diamonds occur), every role file correctly signed and listed in the snapshot. Oracle: total requests <= 3 + root requests + number of simple delegation paths, the harness' request cap (300) is never reached, acyclic graphs load. Non-trivial: a cycle or a role with two delegators; distinct = adjacency lists",
            mode: Mode::Random { cases: n3, strategy: Box::new(|| bx(graph_strategy())) },
            prop: Box::new(move |c: &GraphCase| graph_prop(c, known_cycle)),
            require: vec![("cyclic", n3 as u64 / 10), ("acyclic", n3 as u64 / 10), ("self-delegation", n3 as u64 / 40), ("diamond", n3 as u64 / 40)],
        },
    ));
    out
}

pub fn replay(ctx: &Ctx, part: &str, case: &Value) -> Outcome {
    let known_cycle = ctx.known.is_known("C09", KF_CYCLE);
    match part {
        "limits" => crate::engine::replay_case::<LimitCase>(case, limit_prop),
        "root-updates" => crate::engine::replay_case::<RootsCase>(case, roots_prop),
        _ => crate::engine::replay_case::<GraphCase>(case, |c| graph_prop(c, known_cycle)),
    }
}

pub fn probes(_ctx: &Ctx) -> Vec<super::Probe> {
    let c = GraphCase { consistent: false, roles: 1, edges: vec![(0, 0), (u16::MAX, 0)] };
    let o = graph_prop(&c, false);
    vec![super::Probe {
        key: KF_CYCLE.into(),
        what: "a delegated role that delegates to itself makes the client fetch its metadata file over and over (no cycle guard in load_delegations); only the transport stops it".into(),
        reproduced: o.fail.as_deref().map_or(false, |m| m.contains(KF_CYCLE)),
        detail: o.fail.unwrap_or_else(|| "not reproduced".into()),
    }]
}
