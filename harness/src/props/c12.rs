//! C12 — signatures bind all content the client uses; roles cannot be swapped.
//!
//! For a forged repository carrying unknown members at every object level that tough carries along,
//! every single-point mutation of the signed portion of every role document is served with the
//! original signatures. Oracle: if the client accepts, everything it exposes for that document
//! (read through the public fields, not through Serialize) equals what it exposes for the genuinely
//! signed original: the mutation changed nothing the client uses. Neutral rewrites (formatting,
//! member order, extra unrelated signature entries) must be accepted; a document served in place of
//! another role that shares its key must be refused.

use crate::engine::{bx, run_part, Ctx, Mode, Outcome, PartReport, PartSpec};
use crate::forge::{self, classify, DelegNode, ErrClass, LoadOpts, PathSpec, RoleKeys, RootSpec, Simple};
use crate::keys::key;
use crate::transport::{MemTransport, Resp};
use proptest::prelude::*;
use serde::{Deserialize, Serialize};
use serde_json::{json, Map, Value};

pub const KF_DELEGATION_EXTRAS: &str = "unknown-members-inside-delegations-dropped";

pub fn info() -> super::Info {
    super::Info {
        level: "exploration",
        assumptions: vec![
            "'content the client uses' is read through the public fields of the loaded documents (versions, expiry, meta entries, targets, delegations, key tables, thresholds, all _extra maps)",
            "digest/length pins are switched off in these repositories so that the signature check, not the pin, is what a mutant meets",
            "unknown members inside key objects change the key id and are covered by C13, not here",
        ],
    }
}

// ---------------------------------------------------------------------------------------------
// exposure through public fields

fn hexs(b: &[u8]) -> Value {
    Value::String(hex::encode(b))
}

fn extra(m: &std::collections::HashMap<String, Value>) -> Value {
    let mut o = Map::new();
    for (k, v) in m {
        o.insert(k.clone(), v.clone());
    }
    Value::Object(o)
}

fn time(t: &chrono::DateTime<chrono::Utc>) -> Value {
    json!([t.timestamp(), t.timestamp_subsec_nanos()])
}

fn expose_key(k: &tough::schema::key::Key) -> Value {
    use tough::schema::key::Key;
    match k {
        Key::Rsa { keyval, _extra, .. } => json!({"type":"rsa","public":hexs(&keyval.public),"kv_extra":extra(&keyval._extra),"extra":extra(_extra)}),
        Key::Ed25519 { keyval, _extra, .. } => json!({"type":"ed25519","public":hexs(&keyval.public),"kv_extra":extra(&keyval._extra),"extra":extra(_extra)}),
        Key::Ecdsa { keyval, _extra, .. } => json!({"type":"ecdsa","public":hexs(&keyval.public),"kv_extra":extra(&keyval._extra),"extra":extra(_extra)}),
        Key::EcdsaOld { keyval, _extra, .. } => json!({"type":"ecdsa-old","public":hexs(&keyval.public),"kv_extra":extra(&keyval._extra),"extra":extra(_extra)}),
    }
}

fn expose_keys(m: &std::collections::HashMap<tough::schema::decoded::Decoded<tough::schema::decoded::Hex>, tough::schema::key::Key>) -> Value {
    let mut o = Map::new();
    for (id, k) in m {
        o.insert(hex::encode(id), expose_key(k));
    }
    Value::Object(o)
}

fn expose_root(r: &tough::schema::Root) -> Value {
    let mut roles = Map::new();
    for (t, rk) in &r.roles {
        roles.insert(t.to_string(), json!({"keyids": rk.keyids.iter().map(|k| hex::encode(k)).collect::<Vec<_>>(), "threshold": rk.threshold.get(), "extra": extra(&rk._extra)}));
    }
    json!({"spec_version": r.spec_version, "consistent_snapshot": r.consistent_snapshot, "version": r.version.get(), "expires": time(&r.expires), "keys": expose_keys(&r.keys), "roles": roles, "extra": extra(&r._extra)})
}

fn expose_meta(m: &std::collections::HashMap<String, tough::schema::Metafile>) -> Value {
    let mut o = Map::new();
    for (n, f) in m {
        o.insert(
            n.clone(),
            json!({"length": f.length, "version": f.version.get(), "sha256": f.hashes.as_ref().map(|h| hex::encode(&h.sha256)), "hashes_extra": f.hashes.as_ref().map(|h| extra(&h._extra)), "extra": extra(&f._extra)}),
        );
    }
    Value::Object(o)
}

fn expose_timestamp(t: &tough::schema::Timestamp) -> Value {
    json!({"spec_version": t.spec_version, "version": t.version.get(), "expires": time(&t.expires), "meta": expose_meta(&t.meta), "extra": extra(&t._extra)})
}

fn expose_snapshot(t: &tough::schema::Snapshot) -> Value {
    json!({"spec_version": t.spec_version, "version": t.version.get(), "expires": time(&t.expires), "meta": expose_meta(&t.meta), "extra": extra(&t._extra)})
}

/// `deep`: include the loaded documents of delegated roles
fn expose_targets(t: &tough::schema::Targets, deep: bool) -> Value {
    let mut tm = Map::new();
    for (n, e) in &t.targets {
        let mut custom = Map::new();
        for (k, v) in &e.custom {
            custom.insert(k.clone(), v.clone());
        }
        tm.insert(
            format!("{}|{}", n.raw(), n.resolved()),
            json!({"length": e.length, "sha256": hex::encode(&e.hashes.sha256), "hashes_extra": extra(&e.hashes._extra), "custom": custom, "extra": extra(&e._extra)}),
        );
    }
    let delegations = t.delegations.as_ref().map(|d| {
        let roles: Vec<Value> = d
            .roles
            .iter()
            .map(|r| {
                let paths = match &r.paths {
                    tough::schema::PathSet::Paths(p) => json!({"paths": p.iter().map(|x| x.value().to_string()).collect::<Vec<_>>()}),
                    tough::schema::PathSet::PathHashPrefixes(p) => json!({"prefixes": p.iter().map(|x| x.value().to_string()).collect::<Vec<_>>()}),
                };
                let inner = if deep { r.targets.as_ref().map(|s| expose_targets(&s.signed, true)) } else { None };
                json!({"name": r.name, "keyids": r.keyids.iter().map(|k| hex::encode(k)).collect::<Vec<_>>(), "threshold": r.threshold.get(), "paths": paths, "terminating": r.terminating, "loaded": inner})
            })
            .collect();
        json!({"keys": expose_keys(&d.keys), "roles": roles})
    });
    json!({"spec_version": t.spec_version, "version": t.version.get(), "expires": time(&t.expires), "targets": tm, "delegations": delegations, "extra": extra(&t._extra)})
}

fn expose_repo(r: &tough::Repository) -> Value {
    json!({
        "root": expose_root(&r.root().signed),
        "timestamp": expose_timestamp(&r.timestamp().signed),
        "snapshot": expose_snapshot(&r.snapshot().signed),
        "targets": expose_targets(&r.targets().signed, true),
    })
}

// ---------------------------------------------------------------------------------------------
// JSON text with duplicate members

type Path = Vec<String>;

fn write_json(v: &Value, path: &mut Path, dup: Option<&(Path, String, Value, bool)>, out: &mut String) {
    match v {
        Value::Object(m) => {
            out.push('{');
            let mut first = true;
            for (k, x) in m {
                let here = dup.filter(|d| d.0 == *path && d.1 == *k);
                let mut emit = |k: &str, x: &Value, out: &mut String, path: &mut Path, first: &mut bool| {
                    if !*first {
                        out.push(',');
                    }
                    *first = false;
                    out.push_str(&serde_json::to_string(k).unwrap());
                    out.push(':');
                    path.push(k.to_string());
                    write_json(x, path, dup, out);
                    path.pop();
                };
                match here {
                    Some((_, _, alt, alt_first)) => {
                        if *alt_first {
                            emit(k, alt, out, path, &mut first);
                            emit(k, x, out, path, &mut first);
                        } else {
                            emit(k, x, out, path, &mut first);
                            emit(k, alt, out, path, &mut first);
                        }
                    }
                    None => emit(k, x, out, path, &mut first),
                }
            }
            out.push('}');
        }
        Value::Array(a) => {
            out.push('[');
            for (i, x) in a.iter().enumerate() {
                if i > 0 {
                    out.push(',');
                }
                path.push(format!("#{i}"));
                write_json(x, path, dup, out);
                path.pop();
            }
            out.push(']');
        }
        other => out.push_str(&serde_json::to_string(other).unwrap()),
    }
}

fn get_mut<'a>(v: &'a mut Value, path: &[String]) -> &'a mut Value {
    let mut cur = v;
    for p in path {
        cur = if let Some(i) = p.strip_prefix('#') {
            &mut cur.as_array_mut().unwrap()[i.parse::<usize>().unwrap()]
        } else {
            cur.as_object_mut().unwrap().get_mut(p).unwrap()
        };
    }
    cur
}

fn mutate_scalar(v: &Value) -> Value {
    match v {
        Value::Bool(b) => Value::Bool(!b),
        Value::Number(n) => json!(n.as_u64().unwrap_or(0) + 1),
        Value::String(s) => {
            // keep the syntactic class where possible so that the mutant still parses
            if s.len() >= 8 && s.chars().all(|c| c.is_ascii_hexdigit()) {
                let mut c: Vec<char> = s.chars().collect();
                c[0] = if c[0] == '0' { '1' } else { '0' };
                Value::String(c.into_iter().collect())
            } else if s.ends_with('Z') && s.len() >= 20 && s.as_bytes()[4] == b'-' {
                // a date: another year
                let y: u32 = s[..4].parse().unwrap_or(2030);
                Value::String(format!("{:04}{}", y + 1, &s[4..]))
            } else {
                Value::String(format!("{s}x"))
            }
        }
        Value::Null => json!(0),
        other => other.clone(),
    }
}

/// (description, mutated signed value or raw text)
enum Mutant {
    Val(String, Value),
    Text(String, String),
}

fn enumerate_mutants(signed: &Value) -> Vec<Mutant> {
    let mut out = Vec::new();
    fn walk(root: &Value, v: &Value, path: &mut Path, out: &mut Vec<Mutant>) {
        match v {
            Value::Object(m) => {
                // insert
                let mut c = root.clone();
                get_mut(&mut c, path).as_object_mut().unwrap().insert("zz-inserted".into(), json!(1));
                out.push(Mutant::Val(format!("insert member at /{}", path.join("/")), c));
                // insert a member whose name is a spelling variant of a sibling's name (backslashes,
                // Unicode decomposition): if the canonical form identifies the two, the insertion
                // hides behind the sibling and the signatures stay valid
                for (k, x) in m {
                    let mut variants = vec![format!("{k}\\"), format!("\\{k}")];
                    if k.contains('\u{e9}') {
                        variants.push(k.replace('\u{e9}', "e\u{301}"));
                    }
                    if k.contains("e\u{301}") {
                        variants.push(k.replace("e\u{301}", "\u{e9}"));
                    }
                    for v in variants {
                        if m.contains_key(&v) {
                            continue;
                        }
                        let alt = if x.is_object() || x.is_array() { json!({"inserted": true}) } else { mutate_scalar(x) };
                        let mut c = root.clone();
                        get_mut(&mut c, path).as_object_mut().unwrap().insert(v.clone(), alt);
                        out.push(Mutant::Val(format!("insert member {v:?} (a spelling variant of sibling {k:?}) at /{}", path.join("/")), c));
                    }
                }
                for (k, x) in m {
                    // delete
                    let mut c = root.clone();
                    get_mut(&mut c, path).as_object_mut().unwrap().remove(k);
                    out.push(Mutant::Val(format!("delete /{}/{k}", path.join("/")), c));
                    // duplicate with another value, before and after
                    if !x.is_object() && !x.is_array() {
                        for alt_first in [false, true] {
                            let dup = (path.clone(), k.clone(), mutate_scalar(x), alt_first);
                            let mut s = String::new();
                            write_json(root, &mut vec![], Some(&dup), &mut s);
                            out.push(Mutant::Text(format!("duplicate /{}/{k} with another value ({})", path.join("/"), if alt_first { "first" } else { "last" }), s));
                        }
                    }
                    path.push(k.clone());
                    walk(root, x, path, out);
                    path.pop();
                }
            }
            Value::Array(a) => {
                for i in 0..a.len() {
                    let mut c = root.clone();
                    get_mut(&mut c, path).as_array_mut().unwrap().remove(i);
                    out.push(Mutant::Val(format!("delete element {i} of /{}", path.join("/")), c));
                    let mut c = root.clone();
                    let arr = get_mut(&mut c, path).as_array_mut().unwrap();
                    let e = arr[i].clone();
                    arr.insert(i, e);
                    out.push(Mutant::Val(format!("duplicate element {i} of /{}", path.join("/")), c));
                }
                if a.len() >= 2 && a[0] != a[1] {
                    let mut c = root.clone();
                    get_mut(&mut c, path).as_array_mut().unwrap().swap(0, 1);
                    out.push(Mutant::Val(format!("swap elements of /{}", path.join("/")), c));
                }
                for (i, x) in a.iter().enumerate() {
                    path.push(format!("#{i}"));
                    walk(root, x, path, out);
                    path.pop();
                }
            }
            scalar => {
                let mut c = root.clone();
                *get_mut(&mut c, path) = mutate_scalar(scalar);
                out.push(Mutant::Val(format!("change /{}", path.join("/")), c));
            }
        }
    }
    walk(signed, signed, &mut vec![], &mut out);
    out
}

// ---------------------------------------------------------------------------------------------

#[derive(Clone, Debug, Serialize, Deserialize, PartialEq, Eq)]
pub struct Case {
    pub consistent: bool,
    /// unknown members to inject: (level 0..LEVELS, name pick, value pick)
    pub extras: Vec<(u8, u8, u8)>,
    pub custom: bool,
    pub hash_prefix_delegation: bool,
}

const LEVELS: usize = 11;
const EXTRA_NAMES: [&str; 5] = ["x-ext", "zzz", "Aaa", "_x", "signed"];

/// member name(s) for an injection: one of EXTRA_NAMES, or (a third of the time) a pair of names
/// whose order differs between code points and UTF-16 code units (U+FF45 vs U+1F37A), as another
/// implementation signing in code-point order would place them
fn extra_names(n: u8) -> Vec<&'static str> {
    let i = n as usize % (EXTRA_NAMES.len() + 2);
    if i < EXTRA_NAMES.len() {
        vec![EXTRA_NAMES[i]]
    } else {
        vec!["\u{ff45}-ext", "\u{1f37a}-ext"]
    }
}

fn extra_value(i: u8) -> Value {
    match i % 6 {
        0 => json!(1),
        1 => json!("s"),
        2 => json!(true),
        3 => Value::Null,
        4 => json!([1, "two"]),
        _ => json!({"k": "v", "n": 2}),
    }
}

const SHARED: usize = 1;

fn build(case: &Case, delegation_extras: bool) -> forge::Built {
    let mut s = Simple::basic(case.consistent);
    let mk_root = |v: u64| {
        let mut r = RootSpec::basic(v, case.consistent);
        // one key for all four top-level roles (and the delegated role): needed for the swap cases
        r.root = RoleKeys::one(SHARED);
        r.timestamp = RoleKeys::one(SHARED);
        r.snapshot = RoleKeys::one(SHARED);
        r.targets = RoleKeys::one(SHARED);
        r
    };
    s.roots = vec![mk_root(1), mk_root(2)];
    s.pin_snap_hash = false;
    s.pin_snap_len = false;
    s.pin_targets_hash = false;
    s.pin_targets_len = false;
    s.targets = vec![("top.txt".into(), b"top".to_vec()), ("dir/second.txt".into(), b"second".to_vec()), ("caf\u{e9}.txt".into(), b"cafe".to_vec())];
    let paths = if case.hash_prefix_delegation { PathSpec::HashPrefixes(vec!["".into()]) } else { PathSpec::Paths(vec!["d/*".into(), "e?".into()]) };
    let mut d1 = DelegNode::new("d1", SHARED, paths);
    d1.targets = vec![("d/a.txt".into(), b"a".to_vec())];
    s.delegs = vec![d1];
    let extras = case.extras.clone();
    let custom = case.custom;
    s.build_full(
        &move |role, signed| {
            if custom && (role == "targets" || role == "d1") {
                if let Some(t) = signed["targets"].as_object_mut() {
                    for (_, e) in t.iter_mut() {
                        e["custom"] = json!({"note": "n", "nested": {"a": [1, 2]}, "flag": false, "r\u{e9}sum\u{e9}": "x"});
                    }
                }
            }
            if delegation_extras && role == "targets" {
                signed["delegations"]["x-deleg-ext"] = json!("kept?");
            }
            for (level, n, v) in &extras {
                let names = extra_names(*n);
                let val = extra_value(*v);
                let put = |o: &mut Value| {
                    if let Some(m) = o.as_object_mut() {
                        for name in &names {
                            if !m.contains_key(*name) {
                                m.insert(name.to_string(), val.clone());
                            }
                        }
                    }
                };
                match (*level as usize % LEVELS, role) {
                    (0, r) if r.starts_with("root:") => put(signed),
                    (1, r) if r.starts_with("root:") => put(&mut signed["roles"]["targets"]),
                    (2, "timestamp") => put(signed),
                    (3, "timestamp") => put(&mut signed["meta"]["snapshot.json"]),
                    (4, "snapshot") => put(signed),
                    (5, "snapshot") => put(&mut signed["meta"]["targets.json"]),
                    (6, "targets") => put(signed),
                    (7, "targets") | (7, "d1") => {
                        if let Some(t) = signed["targets"].as_object_mut() {
                            for (_, e) in t.iter_mut() {
                                put(e);
                            }
                        }
                    }
                    (8, "targets") | (8, "d1") => {
                        if let Some(t) = signed["targets"].as_object_mut() {
                            for (_, e) in t.iter_mut() {
                                put(&mut e["hashes"]);
                            }
                        }
                    }
                    (9, "d1") => put(signed),
                    (10, r) if r.starts_with("root:") => put(&mut signed["roles"]["root"]),
                    _ => {}
                }
            }
        },
        &|_, _, _| None,
    )
}

fn file_for(role: &str, consistent: bool) -> String {
    match (role, consistent) {
        ("root:2", _) => "2.root.json".into(),
        ("timestamp", _) => "timestamp.json".into(),
        (r, false) => format!("{r}.json"),
        (r, true) => format!("1.{r}.json"),
    }
}

fn compare(loaded: &Value, original: &Value) -> Option<String> {
    if loaded == original {
        return None;
    }
    // find the first differing top-level role for the message
    for r in ["root", "timestamp", "snapshot", "targets"] {
        if loaded[r] != original[r] {
            return Some(format!("exposed {r} content differs: {} vs signed {}", loaded[r], original[r]));
        }
    }
    Some("exposed content differs".into())
}

pub fn prop_with(case: &Case, known_deleg: bool) -> Outcome {
    let mut o = Outcome::new();
    crate::rt::set_now(crate::rt::t0());
    o.shape = format!("{:?}", case);
    let built = build(case, false);
    let mem = MemTransport::new();
    built.install_meta(&mem);
    let shipped = built.shipped(1);
    let base = match forge::load(&mem, &shipped, &LoadOpts::default()) {
        Ok(r) => expose_repo(&r),
        Err(e) => {
            o.fail(format!("documents signed by another conforming implementation, with unknown members {:?}, do not verify: {e}", case.extras));
            return o;
        }
    };
    if !case.extras.is_empty() {
        o.label("has-unknown-members");
    }
    // spot checks against the forge's own knowledge (not only self-consistency)
    if base["targets"]["version"] != json!(1) || base["root"]["version"] != json!(2) || base["targets"]["targets"]["top.txt|top.txt"]["sha256"] != json!(crate::cjson::sha256_hex(b"top")) {
        o.fail(format!("loaded repository does not expose what was signed: {}", base["targets"]));
        return o;
    }
    for (level, n, v) in &case.extras {
        // every injected member must be exposed in the matching _extra map
        let names = extra_names(*n);
        let val = extra_value(*v);
        let seen = match *level as usize % LEVELS {
            0 => Some(&base["root"]["extra"]),
            1 => Some(&base["root"]["roles"]["targets"]["extra"]),
            2 => Some(&base["timestamp"]["extra"]),
            3 => Some(&base["timestamp"]["meta"]["snapshot.json"]["extra"]),
            4 => Some(&base["snapshot"]["extra"]),
            5 => Some(&base["snapshot"]["meta"]["targets.json"]["extra"]),
            6 => Some(&base["targets"]["extra"]),
            7 => Some(&base["targets"]["targets"]["top.txt|top.txt"]["extra"]),
            8 => Some(&base["targets"]["targets"]["top.txt|top.txt"]["hashes_extra"]),
            9 => Some(&base["targets"]["delegations"]["roles"][0]["loaded"]["extra"]),
            10 => Some(&base["root"]["roles"]["root"]["extra"]),
            _ => None,
        };
        if let Some(m) = seen {
            // the first injection of a name at a level wins; only check presence
            for name in &names {
                if m.get(*name).is_none() {
                    o.fail(format!("unknown member {name:?} = {val} at level {level} was signed but is not carried along: {m}"));
                    return o;
                }
            }
            if names.len() > 1 {
                o.label("extras-across-utf16-planes");
            }
        }
    }
    let mut evaluated = 0u64;
    let mut accepted_harmless = 0u64;
    let roles = ["root:2", "timestamp", "snapshot", "targets", "d1"];
    let serve = |role: &str, bytes: Vec<u8>| {
        let mem = MemTransport::new();
        built.install_meta(&mem);
        mem.set_meta(&file_for(role, case.consistent), Resp::body(bytes));
        forge::load(&mem, &shipped, &LoadOpts::default())
    };
    for role in roles {
        let doc = &built.docs[role];
        let signed = &doc["signed"];
        let sigs = &doc["signatures"];
        // ---- neutral rewrites must be accepted and expose the same content
        let mut reversed = String::from("{\"signed\":");
        {
            // member order reversed at every level of the signed portion
            fn rev(v: &Value, out: &mut String) {
                match v {
                    Value::Object(m) => {
                        out.push('{');
                        for (i, (k, x)) in m.iter().rev().enumerate() {
                            if i > 0 {
                                out.push_str(" ,\n ");
                            }
                            out.push_str(&serde_json::to_string(k).unwrap());
                            out.push_str(" : ");
                            rev(x, out);
                        }
                        out.push('}');
                    }
                    Value::Array(a) => {
                        out.push('[');
                        for (i, x) in a.iter().enumerate() {
                            if i > 0 {
                                out.push(',');
                            }
                            rev(x, out);
                        }
                        out.push(']');
                    }
                    other => out.push_str(&serde_json::to_string(other).unwrap()),
                }
            }
            rev(signed, &mut reversed);
            reversed.push_str(",\t\"signatures\":");
            reversed.push_str(&serde_json::to_string(sigs).unwrap());
            reversed.push_str("}\n\n");
        }
        let mut extra_sig = doc.clone();
        extra_sig["signatures"].as_array_mut().unwrap().insert(0, json!({"keyid": key(11).keyid, "sig": "ab".repeat(64)}));
        // every string (member names and values) spelled with \uXXXX escapes, as ASCII-only writers do
        let mut escaped = String::new();
        {
            fn esc_str(s: &str, out: &mut String) {
                out.push('"');
                let mut buf = [0u16; 2];
                for (i, c) in s.chars().enumerate() {
                    // every non-ASCII character, and every second ASCII one
                    if !c.is_ascii() || i % 2 == 0 {
                        for u in c.encode_utf16(&mut buf) {
                            out.push_str(&format!("\\u{:04x}", u));
                        }
                    } else {
                        match c {
                            '"' => out.push_str("\\\""),
                            '\\' => out.push_str("\\\\"),
                            c if (c as u32) < 0x20 => out.push_str(&format!("\\u{:04x}", c as u32)),
                            c => out.push(c),
                        }
                    }
                }
                out.push('"');
            }
            fn esc(v: &Value, out: &mut String) {
                match v {
                    Value::Object(m) => {
                        out.push('{');
                        for (i, (k, x)) in m.iter().enumerate() {
                            if i > 0 {
                                out.push(',');
                            }
                            esc_str(k, out);
                            out.push(':');
                            esc(x, out);
                        }
                        out.push('}');
                    }
                    Value::Array(a) => {
                        out.push('[');
                        for (i, x) in a.iter().enumerate() {
                            if i > 0 {
                                out.push(',');
                            }
                            esc(x, out);
                        }
                        out.push(']');
                    }
                    Value::String(t) => esc_str(t, out),
                    other => out.push_str(&serde_json::to_string(other).unwrap()),
                }
            }
            esc(doc, &mut escaped);
            // the harness' own sanity: the rewrite denotes the same JSON value
            assert_eq!(&serde_json::from_str::<Value>(&escaped).expect("escaped rewrite parses"), doc);
        }
        let neutral: Vec<(&str, Vec<u8>)> = vec![
            ("strings spelled with \\uXXXX escapes", escaped.into_bytes()),
            ("pretty-printed", serde_json::to_vec_pretty(doc).unwrap()),
            ("members re-ordered and re-spaced", reversed.into_bytes()),
            ("extra signature entry by an unknown key", serde_json::to_vec(&extra_sig).unwrap()),
        ];
        for (what, bytes) in neutral {
            evaluated += 1;
            match serve(role, bytes) {
                Ok(r) => {
                    if let Some(d) = compare(&expose_repo(&r), &base) {
                        o.fail(format!("{role} {what}: accepted but {d}"));
                        return o;
                    }
                }
                Err(e) => {
                    o.fail(format!("{role} {what}: a rewrite that does not touch the signed content was refused: {e}"));
                    return o;
                }
            }
        }
        // ---- every single-point mutation of the signed portion, original signatures kept
        for m in enumerate_mutants(signed) {
            let (what, bytes) = match m {
                Mutant::Val(w, v) => (w, serde_json::to_vec(&json!({"signed": v, "signatures": sigs})).unwrap()),
                Mutant::Text(w, t) => (w, format!("{{\"signed\":{t},\"signatures\":{}}}", serde_json::to_string(sigs).unwrap()).into_bytes()),
            };
            evaluated += 1;
            if let Ok(r) = serve(role, bytes) {
                let exposed = expose_repo(&r);
                // a root mutant may make the client stop at root 1 only by failing; Ok means root 2 was taken
                if let Some(d) = compare(&exposed, &base) {
                    o.fail(format!("{role}: mutation '{what}' of the signed portion was accepted with the original signatures, and {d}"));
                    return o;
                }
                accepted_harmless += 1;
            }
        }
    }
    // ---- swaps: a document signed for one role served in place of another role with the same key
    // (delegated targets roles and the top-level targets role share `_type` by design of TUF and are
    // told apart only by the snapshot pin, so they are not part of this clause)
    let swaps = [
        ("timestamp", "snapshot"),
        ("snapshot", "timestamp"),
        ("snapshot", "targets"),
        ("targets", "snapshot"),
        ("timestamp", "targets"),
        ("targets", "timestamp"),
        ("timestamp", "root:2"),
        ("snapshot", "root:2"),
        ("targets", "root:2"),
        ("root:2", "timestamp"),
        ("root:2", "snapshot"),
        ("root:2", "targets"),
    ];
    for (place, other) in swaps {
        evaluated += 1;
        let bytes = serde_json::to_vec(&built.docs[other]).unwrap();
        if let Ok(r) = serve(place, bytes) {
            // accepted: it must not be the other document that is now in use
            if compare(&expose_repo(&r), &base).is_some() {
                o.fail(format!("the {other} document (signed by the key both roles share) was accepted in place of {place}"));
                return o;
            }
        }
        o.label("swap");
    }
    // ---- interoperability for members inside `delegations` (known finding)
    {
        evaluated += 1;
        let b2 = build(case, true);
        let mem = MemTransport::new();
        b2.install_meta(&mem);
        match forge::load(&mem, &b2.shipped(1), &LoadOpts::default()) {
            Ok(_) => o.label("delegations-extra-verifies"),
            Err(e) => {
                if known_deleg && classify(&e) == ErrClass::SigThreshold {
                    o.known_hits += 1;
                    o.label("known:delegations-extra");
                } else {
                    o.fail(format!("a targets document signed with an unknown member directly inside `delegations` does not verify: {e} [{KF_DELEGATION_EXTRAS}]"));
                    return o;
                }
            }
        }
    }
    if accepted_harmless > 0 {
        o.label("mutant-accepted-without-effect");
    }
    o.weight = evaluated;
    o.nontrivial = true;
    o
}

fn case_strategy() -> impl Strategy<Value = Case> {
    (any::<bool>(), prop::collection::vec((0u8..LEVELS as u8, 0u8..7, 0u8..6), 0..8), any::<bool>(), prop::bool::weighted(0.3))
        .prop_map(|(consistent, extras, custom, hash_prefix_delegation)| Case { consistent, extras, custom, hash_prefix_delegation })
}

pub fn check(ctx: &Ctx) -> Vec<PartReport> {
    let known = ctx.known.is_known("C12", KF_DELEGATION_EXTRAS);
    let n = ctx.cases(120, 1200);
    let mut out = vec![run_part(
        ctx,
        PartSpec {
            name: "mutants",
            rule: "random forged repositories (root chain of two, one key shared by timestamp / snapshot / targets / delegated role, custom data on targets, glob or hash-prefix delegation) with 0..7 unknown members of random JSON shape (names include a pair whose code-point order and UTF-16 order differ) injected before signing at 11 object levels (root top level, roles.targets, roles.root, timestamp/snapshot top level, their meta entries, targets top level, target entries, hashes, delegated role top level). For each of root, timestamp, snapshot, targets and the delegated role: four neutral rewrites (pretty-printed; members re-ordered and re-spaced; an extra signature entry by an unknown key; every string spelled with \\uXXXX escapes as ASCII-only writers do: must load and expose the same content) and EVERY single-point mutation of the signed portion (change of each scalar, member insertion at each object, deletion of each member, duplication of each scalar member with another value before/after, array element deletion/duplication/swap), served with the original signatures; plus six role swaps between documents sharing a key. Evaluations count mutants. Oracle: Ok => the content exposed through public fields equals that of the signed original. Non-trivial: every case; distinct = (extras, flags)",
            mode: Mode::Random { cases: n, strategy: Box::new(|| bx(case_strategy())) },
            prop: Box::new(move |c: &Case| prop_with(c, known)),
            require: vec![("has-unknown-members", n as u64 / 2), ("swap", n as u64 / 2), ("mutant-accepted-without-effect", n as u64 / 2), ("extras-across-utf16-planes", n as u64 / 6)],
        },
    )];
    if ctx.tier == crate::engine::Tier::Thorough && !ctx.stop.load(std::sync::atomic::Ordering::Relaxed) {
        out.push(crate::fuzz::run(ctx, "C12", "signed_parse", (1_000_000f64 * ctx.scale) as u64, 8192));
    }
    out
}

pub fn replay(ctx: &Ctx, part: &str, case: &Value) -> Outcome {
    if let Some(t) = part.strip_prefix("fuzz:") {
        return crate::fuzz::replay(t, case["input_hex"].as_str().unwrap_or(""));
    }
    let known = ctx.known.is_known("C12", KF_DELEGATION_EXTRAS);
    crate::engine::replay_case::<Case>(case, |c| prop_with(c, known))
}

pub fn probes(_ctx: &Ctx) -> Vec<super::Probe> {
    let c = Case { consistent: false, extras: vec![], custom: false, hash_prefix_delegation: false };
    let o = prop_with(&c, false);
    vec![super::Probe {
        key: KF_DELEGATION_EXTRAS.into(),
        what: "Delegations and DelegatedRole have no catch-all map: a targets document that another implementation signed with an unknown member directly inside `delegations` (or inside a delegations.roles[i] object) fails signature verification because the member is dropped on parse".into(),
        reproduced: o.fail.as_deref().map_or(false, |m| m.contains(KF_DELEGATION_EXTRAS)),
        detail: o.fail.unwrap_or_else(|| "not reproduced".into()),
    }]
}
