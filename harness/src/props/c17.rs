//! C17 — updating a repository preserves everything that was not deliberately changed.

use super::edit;
use crate::cjson::canon;
use crate::engine::{bx, run_part, Ctx, Mode, Outcome, PartReport, PartSpec};
use crate::forge::{self, DelegNode, PathSpec, Simple};
use proptest::prelude::*;
use serde::{Deserialize, Serialize};
use serde_json::{json, Map, Value};
use std::collections::BTreeMap;
use std::num::NonZeroU64;
use std::path::{Path, PathBuf};
use tough::editor::RepositoryEditor;
use tough::schema::Target;

pub const KF_SNAPSHOT_EXTRA: &str = "snapshot-extra-members-dropped";

pub fn info() -> super::Info {
    super::Info {
        level: "exploration",
        assumptions: vec![
            "existing repositories come from the harness' forge (unknown top-level members in targets / snapshot / timestamp / delegated roles, custom data and unknown members on target entries, delegation trees of depth <=2) and from editing programs run against the real editor (as in C10)",
            "the update is RepositoryEditor::from_repo, new versions and expirations, 0..3 added targets, sign, write (what `tuftool update` does); the tuftool binary itself is exercised in the thorough tier",
        ],
    }
}

#[derive(Clone, Debug, Serialize, Deserialize, PartialEq, Eq)]
pub struct ForgeRepo {
    pub consistent: bool,
    /// (name pick, size) of top-level targets
    pub targets: Vec<(u8, u16)>,
    /// delegated roles: (parent: 0 = top, 1 = first role ...; targets; hash-prefix paths)
    pub roles: Vec<(u8, Vec<(u8, u16)>, bool)>,
    /// unknown members at the top level of timestamp, snapshot, targets, delegated roles: (name pick, value pick)
    pub extra_ts: Vec<(u8, u8)>,
    pub extra_snap: Vec<(u8, u8)>,
    pub extra_targets: Vec<(u8, u8)>,
    pub extra_deleg: Vec<(u8, u8)>,
    pub custom: bool,
    pub entry_extra: bool,
    pub versions: [u32; 3],
}

#[derive(Clone, Debug, Serialize, Deserialize, PartialEq, Eq)]
pub enum Base {
    Forged(ForgeRepo),
    Edited(edit::Program),
}

#[derive(Clone, Debug, Serialize, Deserialize, PartialEq, Eq)]
pub struct Case {
    pub base: Base,
    pub add: Vec<(u8, u16)>,
    pub new_versions: [u32; 3],
    /// drive the update through the `tuftool update` binary instead of the library API
    #[serde(default)]
    pub via_cli: bool,
}

const NAMES: [&str; 9] = ["a.txt", "b.bin", "dir/c.txt", "deep/er/d.dat", "UPPER.TXT", "dots..name", "tilde~1", "plus+sign", "x/../resolved.txt"];
const EXTRA_NAMES: [&str; 4] = ["x-ext", "zzz", "Aaa", "_custom"];
/// names that are fields of some other role type: unrecognised where they are injected
const EXTRA_NAMES_META_ROLES: [&str; 5] = ["targets", "delegations", "keys", "roles", "consistent_snapshot"]; // for timestamp / snapshot
const EXTRA_NAMES_TARGETS_ROLES: [&str; 4] = ["meta", "keys", "roles", "consistent_snapshot"]; // for targets and delegated roles

fn extra_value(i: u8) -> Value {
    match i % 5 {
        0 => json!(1),
        1 => json!("s"),
        2 => json!([1, "two", null]),
        3 => json!({"k": "v", "n": {"deep": true}}),
        _ => json!(false),
    }
}

fn extras(v: &[(u8, u8)], foreign: &[&str]) -> Vec<(String, Value)> {
    let mut out: Vec<(String, Value)> = Vec::new();
    for (n, x) in v {
        let i = *n as usize % (EXTRA_NAMES.len() + foreign.len());
        let name = if i < EXTRA_NAMES.len() { EXTRA_NAMES[i].to_string() } else { foreign[i - EXTRA_NAMES.len()].to_string() };
        if !out.iter().any(|(k, _)| *k == name) {
            out.push((name, extra_value(*x)));
        }
    }
    out
}

struct OnDisk {
    _work: tempfile::TempDir,
    root_path: PathBuf,
    metadata_dir: PathBuf,
    targets_dir: PathBuf,
    sign_keys: Vec<usize>,
}

fn forge_to_disk(f: &ForgeRepo) -> OnDisk {
    let mut s = Simple::basic(f.consistent);
    s.ts_version = f.versions[0].max(1) as u64;
    s.snap_version = f.versions[1].max(1) as u64;
    s.targets_version = f.versions[2].max(1) as u64;
    let mk_targets = |prefix: &str, v: &[(u8, u16)]| -> Vec<(String, Vec<u8>)> {
        let mut out: Vec<(String, Vec<u8>)> = Vec::new();
        for (i, (n, size)) in v.iter().enumerate() {
            let name = format!("{prefix}{}", NAMES[*n as usize % NAMES.len()]);
            if !out.iter().any(|(k, _)| *k == name) {
                out.push((name, edit::content(*size % 3000, i as u8)));
            }
        }
        out
    };
    s.targets = mk_targets("", &f.targets);
    // delegation tree of depth <= 2
    let mut nodes: Vec<(usize, DelegNode)> = Vec::new();
    for (i, (parent, tg, hash)) in f.roles.iter().take(4).enumerate() {
        let parent = (*parent as usize) % (nodes.len() + 1);
        let parent = if parent > 0 && nodes[parent - 1].0 != 0 { 0 } else { parent }; // depth <= 2
        let prefix = if parent == 0 { format!("r{i}/") } else { format!("r{}/r{i}/", parent - 1) };
        let paths = if *hash { PathSpec::HashPrefixes(vec!["".into()]) } else { PathSpec::Paths(vec![format!("{prefix}*")]) };
        // (listed order is priority order and must survive an update: names are not alphabetical)
        let mut n = DelegNode::new(["zeta", "alpha", "mid", "beta"][i % 4], 4 + i, paths);
        n.targets = mk_targets(&prefix, tg);
        n.version = 1 + i as u64;
        n.extra = extras(&f.extra_deleg, &EXTRA_NAMES_TARGETS_ROLES);
        nodes.push((parent, n));
    }
    // assemble (children before parents)
    let mut built: Vec<Option<DelegNode>> = nodes.iter().map(|(_, n)| Some(n.clone())).collect();
    for i in (0..nodes.len()).rev() {
        let p = nodes[i].0;
        if p > 0 {
            let child = built[i].take().unwrap();
            built[p - 1].as_mut().unwrap().children.insert(0, child);
        }
    }
    s.delegs = built.into_iter().flatten().collect();
    s.timestamp_extra = extras(&f.extra_ts, &EXTRA_NAMES_META_ROLES);
    s.snapshot_extra = extras(&f.extra_snap, &EXTRA_NAMES_META_ROLES);
    s.targets_extra = extras(&f.extra_targets, &EXTRA_NAMES_TARGETS_ROLES);
    let custom = f.custom;
    let entry_extra = f.entry_extra;
    let b = s.build_full(
        &move |role, signed| {
            if role.starts_with("root") || role == "timestamp" || role == "snapshot" {
                return;
            }
            if let Some(t) = signed["targets"].as_object_mut() {
                for (i, (_, e)) in t.iter_mut().enumerate() {
                    if custom && i % 2 == 0 {
                        e["custom"] = json!({"build": i, "tags": ["x", "y"], "nested": {"a": null}});
                    }
                    if entry_extra && i % 3 == 0 {
                        e["x-entry-ext"] = json!({"kept": true});
                    }
                }
            }
        },
        &|_, _, _| None,
    );
    let work = tempfile::tempdir().unwrap();
    let w = work.path();
    let metadata_dir = w.join("metadata");
    let targets_dir = w.join("targets");
    std::fs::create_dir_all(&metadata_dir).unwrap();
    std::fs::create_dir_all(&targets_dir).unwrap();
    for (f, bytes) in &b.meta {
        std::fs::write(metadata_dir.join(f), bytes).unwrap();
    }
    for (f, bytes) in &b.target_files {
        let p = targets_dir.join(f);
        std::fs::create_dir_all(p.parent().unwrap()).unwrap();
        std::fs::write(p, bytes).unwrap();
    }
    let root_path = w.join("root.json");
    std::fs::write(&root_path, &b.root_bytes[&1]).unwrap();
    OnDisk { _work: work, root_path, metadata_dir, targets_dir, sign_keys: vec![1, 2, 3] }
}

fn load_dir(root: &Path, meta: &Path, targets: &Path) -> Result<tough::Repository, tough::error::Error> {
    crate::rt::set_now(crate::rt::t0());
    let rootb = std::fs::read(root).unwrap();
    crate::rt::block_on(
        tough::RepositoryLoader::new(&rootb, url::Url::from_directory_path(meta).unwrap(), url::Url::from_directory_path(targets).unwrap())
            .transport(tough::FilesystemTransport)
            .load(),
    )
}

/// role documents on disk: role name -> document
fn docs(meta: &Path) -> BTreeMap<String, Value> {
    let mut m = BTreeMap::new();
    for (f, bytes) in edit::list_files(meta) {
        if f.ends_with(".root.json") || f == "root.json" {
            continue;
        }
        let Ok(d) = serde_json::from_slice::<Value>(&bytes) else { continue };
        // strip a numeric version prefix
        let stem = f.strip_suffix(".json").unwrap_or(&f);
        let name = match stem.split_once('.') {
            Some((v, rest)) if v.chars().all(|c| c.is_ascii_digit()) => rest.to_string(),
            _ => stem.to_string(),
        };
        // with consistent snapshots several versions of one role may lie around: keep the highest
        let ver = d["signed"]["version"].as_u64().unwrap_or(0);
        let keep = m.get(&name).map_or(true, |old: &Value| old["signed"]["version"].as_u64().unwrap_or(0) <= ver);
        if keep {
            m.insert(name, d);
        }
    }
    m
}

fn top_level_extra(signed: &Value, known: &[&str]) -> Map<String, Value> {
    let mut m = Map::new();
    if let Some(o) = signed.as_object() {
        for (k, v) in o {
            if !known.contains(&k.as_str()) {
                m.insert(k.clone(), v.clone());
            }
        }
    }
    m
}

pub fn prop_with(case: &Case, known_snapshot: bool) -> Outcome {
    let mut o = Outcome::new();
    o.shape = format!("{:?}", case);
    crate::rt::set_now(crate::rt::t0());
    // ---- the existing repository
    let (disk, _keep): (OnDisk, Option<edit::Built>) = match &case.base {
        Base::Forged(f) => {
            o.label("base:forged");
            (forge_to_disk(f), None)
        }
        Base::Edited(p) => {
            o.label("base:edited");
            let b = match edit::run_program(p) {
                Ok(Some(b)) => b,
                _ => return o,
            };
            if !b.labels.iter().any(|l| l == "sign-ok") {
                return o;
            }
            let rs = b.model.root.clone().unwrap();
            let mut keys: Vec<usize> = rs.timestamp.keys.iter().chain(&rs.snapshot.keys).chain(&rs.targets.keys).copied().collect();
            keys.dedup();
            let d = OnDisk {
                _work: tempfile::tempdir().unwrap(),
                root_path: b.root_path.clone(),
                metadata_dir: b.metadata_dir.clone(),
                targets_dir: b.targets_dir.clone(),
                sign_keys: keys,
            };
            (d, Some(b))
        }
    };
    let old_repo = match load_dir(&disk.root_path, &disk.metadata_dir, &disk.targets_dir) {
        Ok(r) => r,
        Err(e) => {
            if matches!(case.base, Base::Forged(_)) {
                o.fail(format!("forged base repository does not load: {e}"));
            }
            return o;
        }
    };
    let old_docs = docs(&disk.metadata_dir);
    // ---- the update
    let out = tempfile::tempdir().unwrap();
    let new_meta = out.path().join("metadata");
    let input = out.path().join("input");
    std::fs::create_dir_all(&input).unwrap();
    let mut added: BTreeMap<String, (u64, String)> = BTreeMap::new();
    let nv = case.new_versions;
    let res: Result<(), String> = if case.via_cli {
        o.label("via:tuftool-update");
        drop(old_repo);
        (|| -> Result<(), String> {
            let bin = super::c20::tuftool()?;
            // `--add-targets` takes a directory and names targets after the files in it
            let add_dir = input.join("flat");
            std::fs::create_dir_all(&add_dir).unwrap();
            for (i, (n, size)) in case.add.iter().enumerate() {
                let name = format!("added-{}-{}", i, NAMES[*n as usize % NAMES.len()].replace('/', "_"));
                let data = edit::content(*size % 2000, 100 + i as u8);
                std::fs::write(add_dir.join(&name), &data).unwrap();
                added.insert(name, (data.len() as u64, crate::cjson::sha256_hex(&data)));
            }
            let mut cmd = std::process::Command::new(bin);
            cmd.arg("update")
                .arg("--root").arg(&disk.root_path)
                .arg("--metadata-url").arg(url::Url::from_directory_path(&disk.metadata_dir).unwrap().as_str())
                .arg("--outdir").arg(out.path())
                .arg("--targets-version").arg(nv[0].max(1).to_string())
                .arg("--targets-expires").arg(crate::rt::rfc3339(edit::expiry(400)))
                .arg("--snapshot-version").arg(nv[1].max(1).to_string())
                .arg("--snapshot-expires").arg(crate::rt::rfc3339(edit::expiry(401)))
                .arg("--timestamp-version").arg(nv[2].max(1).to_string())
                .arg("--timestamp-expires").arg(crate::rt::rfc3339(edit::expiry(402)));
            if !case.add.is_empty() {
                cmd.arg("--add-targets").arg(&add_dir);
            }
            for k in &disk.sign_keys {
                cmd.arg("-k").arg(&crate::keys::key(*k).priv_path);
            }
            cmd.env("RUST_BACKTRACE", "0");
            let outp = cmd.output().map_err(|e| format!("cannot run tuftool: {e}"))?;
            if !outp.status.success() {
                return Err(format!("tuftool update exited {:?}: {}", outp.status.code(), String::from_utf8_lossy(&outp.stderr).lines().take(4).collect::<Vec<_>>().join(" | ")));
            }
            Ok(())
        })()
    } else {
        crate::rt::block_on(async {
            let mut ed = RepositoryEditor::from_repo(&disk.root_path, old_repo).await.map_err(|e| format!("from_repo: {e}"))?;
            ed.targets_version(NonZeroU64::new(nv[0].max(1) as u64).unwrap()).map_err(|e| e.to_string())?;
            ed.targets_expires(edit::expiry(400)).map_err(|e| e.to_string())?;
            ed.snapshot_version(NonZeroU64::new(nv[1].max(1) as u64).unwrap()).snapshot_expires(edit::expiry(401));
            ed.timestamp_version(NonZeroU64::new(nv[2].max(1) as u64).unwrap()).timestamp_expires(edit::expiry(402));
            for (i, (n, size)) in case.add.iter().enumerate() {
                let name = format!("added/{}", NAMES[*n as usize % NAMES.len()]);
                let data = edit::content(*size % 2000, 100 + i as u8);
                let f = input.join(format!("add-{i}"));
                std::fs::write(&f, &data).unwrap();
                let t = Target::from_path(&f).await.map_err(|e| e.to_string())?;
                ed.add_target(name.as_str(), t).map_err(|e| format!("add_target: {e}"))?;
                added.insert(name, (data.len() as u64, crate::cjson::sha256_hex(&data)));
            }
            let signed = ed.sign(&edit::key_sources(&disk.sign_keys)).await.map_err(|e| format!("sign: {e}"))?;
            signed.write(&new_meta).await.map_err(|e| format!("write: {e}"))?;
            Ok(())
        })
    };
    if let Err(e) = res {
        o.fail(format!("update of a loadable repository with the right keys failed: {e}"));
        return o;
    }
    let new_docs = docs(&new_meta);
    o.nontrivial = true;
    // ---- compare
    let std_meta = ["_type", "spec_version", "version", "expires", "meta"];
    let std_targets = ["_type", "spec_version", "version", "expires", "targets", "delegations"];
    for role in ["timestamp", "snapshot", "targets"] {
        let (Some(od), Some(nd)) = (old_docs.get(role), new_docs.get(role)) else {
            o.fail(format!("{role} document missing after the update"));
            return o;
        };
        let std_fields: &[&str] = if role == "targets" { &std_targets } else { &std_meta };
        let oe = top_level_extra(&od["signed"], std_fields);
        let ne = top_level_extra(&nd["signed"], std_fields);
        if !oe.is_empty() {
            o.label(format!("unknown-members:{role}"));
        }
        if oe != ne {
            let msg = format!("unrecognised top-level members of {role} changed by the update: before {}, after {}", Value::Object(oe.clone()), Value::Object(ne.clone()));
            if role == "snapshot" && known_snapshot && ne.is_empty() {
                o.known_hits += 1;
                o.label("known:snapshot-extra");
            } else {
                o.fail(format!("{msg}{}", if role == "snapshot" { format!(" [{KF_SNAPSHOT_EXTRA}]") } else { String::new() }));
                return o;
            }
        }
    }
    // top-level targets: old entries unchanged, added ones present, nothing else
    let ot = old_docs["targets"]["signed"]["targets"].as_object().cloned().unwrap_or_default();
    let nt = new_docs["targets"]["signed"]["targets"].as_object().cloned().unwrap_or_default();
    for (name, entry) in &ot {
        if added.contains_key(name) {
            continue;
        }
        if nt.get(name) != Some(entry) {
            o.fail(format!("target {name:?} changed or disappeared: before {entry}, after {:?}", nt.get(name)));
            return o;
        }
    }
    for (name, entry) in &nt {
        if let Some((len, sha)) = added.get(name) {
            if entry["length"].as_u64() != Some(*len) || entry["hashes"]["sha256"].as_str() != Some(sha.as_str()) {
                o.fail(format!("added target {name:?} recorded wrongly: {entry}"));
                return o;
            }
        } else if !ot.contains_key(name) {
            o.fail(format!("target {name:?} appeared out of nowhere"));
            return o;
        }
    }
    for name in added.keys() {
        if !nt.contains_key(name) {
            o.fail(format!("added target {name:?} is missing"));
            return o;
        }
    }
    if !ot.is_empty() && ot.values().any(|e| e.get("custom").is_some()) {
        o.label("custom-data");
    }
    // delegation structure of the top-level role
    if old_docs["targets"]["signed"].get("delegations").map(|d| canon(d).ok()) != new_docs["targets"]["signed"].get("delegations").map(|d| canon(d).ok()) {
        // an absent `delegations` and an empty one are the same structure
        let empty = json!({"keys": {}, "roles": []});
        let od = old_docs["targets"]["signed"].get("delegations").cloned().unwrap_or(empty.clone());
        let nd = new_docs["targets"]["signed"].get("delegations").cloned().unwrap_or(empty);
        if canon(&od).ok() != canon(&nd).ok() {
            o.fail(format!("delegations of the top-level targets role changed: before {od}, after {nd}"));
            return o;
        }
    }
    // every delegated role: content and signatures untouched
    let mut n_deleg = 0;
    for (name, od) in &old_docs {
        if ["timestamp", "snapshot", "targets"].contains(&name.as_str()) {
            continue;
        }
        n_deleg += 1;
        let Some(nd) = new_docs.get(name) else {
            o.fail(format!("delegated role {name} was not written by the update"));
            return o;
        };
        if canon(&od["signed"]).ok() != canon(&nd["signed"]).ok() {
            o.fail(format!("content of delegated role {name} changed: before {}, after {}", od["signed"], nd["signed"]));
            return o;
        }
        if od["signatures"] != nd["signatures"] {
            o.fail(format!("signatures of delegated role {name} changed"));
            return o;
        }
    }
    if n_deleg > 0 {
        o.label("has-delegated-roles");
    }
    // versions and expirations are the new ones
    let want = [("targets", nv[0]), ("snapshot", nv[1]), ("timestamp", nv[2])];
    for (r, v) in want {
        if new_docs[r]["signed"]["version"].as_u64() != Some(v.max(1) as u64) {
            o.fail(format!("{r} version is {}, set to {}", new_docs[r]["signed"]["version"], v.max(1)));
            return o;
        }
    }
    // and the result is a valid repository: loads, every delegated role still verifies
    match load_dir(&disk.root_path, &new_meta, &disk.targets_dir) {
        Ok(_) => o.label("updated-repository-loads"),
        Err(e) => {
            o.fail(format!("the updated repository does not load: {e}"));
        }
    }
    o
}

fn small() -> impl Strategy<Value = Vec<(u8, u8)>> {
    prop::collection::vec((0u8..9, 0u8..5), 0..3)
}

fn forge_strategy() -> impl Strategy<Value = ForgeRepo> {
    (
        any::<bool>(),
        prop::collection::vec((0u8..9, 0u16..3000), 0..6),
        prop::collection::vec((0u8..4, prop::collection::vec((0u8..9, 0u16..3000), 0..4), prop::bool::weighted(0.2)), 0..4),
        (small(), small(), small(), small()),
        any::<bool>(),
        any::<bool>(),
        [1u32..50, 1u32..50, 1u32..50],
    )
        .prop_map(|(consistent, targets, roles, (a, b, c, d), custom, entry_extra, versions)| ForgeRepo {
            consistent,
            targets,
            roles,
            extra_ts: a,
            extra_snap: b,
            extra_targets: c,
            extra_deleg: d,
            custom,
            entry_extra,
            versions,
        })
}

fn case_strategy() -> impl Strategy<Value = Case> {
    (case_strategy_lib(), prop::bool::weighted(0.08)).prop_map(|(mut c, cli)| {
        c.via_cli = cli;
        c
    })
}

fn case_strategy_lib() -> impl Strategy<Value = Case> {
    (
        prop_oneof![3 => forge_strategy().prop_map(Base::Forged), 1 => edit::program(15).prop_map(Base::Edited)],
        prop::collection::vec((0u8..9, 0u16..2000), 0..4),
        [50u32..5000, 50u32..5000, 50u32..5000],
    )
        .prop_map(|(base, add, new_versions)| Case { base, add, new_versions, via_cli: false })
}

pub fn check(ctx: &Ctx) -> Vec<PartReport> {
    let known = ctx.known.is_known("C17", KF_SNAPSHOT_EXTRA);
    let n = ctx.cases(1_500, 20_000);
    vec![run_part(
        ctx,
        PartSpec {
            name: "updates",
            rule: "random existing repositories (3/4 forged: 0..5 top-level targets, 0..4 delegated roles in a tree of depth <=2 with glob or hash-prefix paths and their own targets, 0..2 unknown members at the top level of timestamp, snapshot, targets and each delegated role, custom data and unknown members on target entries, both snapshot modes; 1/4 built by an editing program against the real editor) passed through RepositoryEditor::from_repo, new versions and expirations, 0..3 added targets, sign, write. Oracle: member-by-member comparison of the documents before and after: unknown top-level members of timestamp / snapshot / targets identical, every old target entry identical, exactly the added entries new, delegations identical, every delegated role's signed content (canonical form) and signatures identical, new versions as set, and the updated repository loads. Non-trivial: every completed update; distinct = case",
            mode: Mode::Random { cases: n, strategy: Box::new(|| bx(case_strategy())) },
            prop: Box::new(move |c: &Case| prop_with(c, known)),
            require: vec![
                ("updated-repository-loads", n as u64 / 2),
                ("has-delegated-roles", n as u64 / 4),
                ("unknown-members:snapshot", n as u64 / 5),
                ("unknown-members:timestamp", n as u64 / 5),
                ("unknown-members:targets", n as u64 / 5),
                ("custom-data", n as u64 / 5),
                ("base:edited", n as u64 / 10),
                ("via:tuftool-update", n as u64 / 30),
            ],
        },
    )]
}

pub fn replay(ctx: &Ctx, _part: &str, case: &Value) -> Outcome {
    let known = ctx.known.is_known("C17", KF_SNAPSHOT_EXTRA);
    crate::engine::replay_case::<Case>(case, |c| prop_with(c, known))
}

pub fn probes(_ctx: &Ctx) -> Vec<super::Probe> {
    let f = ForgeRepo {
        consistent: false,
        targets: vec![(0, 10)],
        roles: vec![],
        extra_ts: vec![],
        extra_snap: vec![(0, 0)],
        extra_targets: vec![],
        extra_deleg: vec![],
        custom: false,
        entry_extra: false,
        versions: [1, 1, 1],
    };
    let o = prop_with(&Case { base: Base::Forged(f), add: vec![], new_versions: [60, 60, 60], via_cli: false }, false);
    vec![super::Probe {
        key: KF_SNAPSHOT_EXTRA.into(),
        what: "RepositoryEditor::build_snapshot computes the carried-over unknown members and never assigns them: unknown top-level members of snapshot.json are dropped by any pass through the editor".into(),
        reproduced: o.fail.as_deref().map_or(false, |m| m.contains(KF_SNAPSHOT_EXTRA)),
        detail: o.fail.unwrap_or_else(|| "not reproduced".into()),
    }]
}
