//! C04 — freeze protection and the clock guard.
//!
//! The harness owns the client's clock (cargo feature `verif-hooks`): each case places expiry
//! dates around a reference instant and then runs a sequence of operations (load / read_target /
//! save_target) at chosen clock values on one datastore.

use crate::engine::{bx, run_part, Ctx, Mode, Outcome, PartReport, PartSpec};
use crate::forge::{self, classify, ErrClass, LoadOpts, RootSpec, Simple};
use crate::rt::t0;
use crate::transport::MemTransport;
use chrono::{DateTime, Duration, Utc};
use proptest::prelude::*;
use serde::{Deserialize, Serialize};
use serde_json::Value;
use tough::{ExpirationEnforcement, IntoVec, Prefix, TargetName};

pub fn info() -> super::Info {
    super::Info {
        level: "exploration",
        assumptions: vec![
            "the client's clock is the thread-local override consulted by Datastore::system_time (hook); the instant now == expires is never used as a test point (load treats it as valid, read_target as expired; the statement says 'has passed')",
            "expiry of delegated roles is not part of the statement",
        ],
    }
}

const ROLES: [&str; 4] = ["root", "timestamp", "snapshot", "targets"];

#[derive(Clone, Copy, Debug, Serialize, Deserialize, PartialEq, Eq)]
pub enum OpKind {
    Load,
    Read,
    Save,
    /// save_target with the digest-prefixed file name
    SaveDigest,
    /// Repository::cache of all targets (saves through the same path)
    Cache,
}

#[derive(Clone, Copy, Debug, Serialize, Deserialize, PartialEq, Eq)]
pub enum At {
    /// clock = previous clock + delta (ms)
    Rel(i64),
    /// clock = expiry of role r + offset (ms, never 0)
    Near(u8, i64),
}

#[derive(Clone, Debug, Serialize, Deserialize, PartialEq, Eq)]
pub struct Case {
    pub consistent: bool,
    /// 0 = not set (default), 1 = Safe, 2 = Unsafe
    pub enforcement: u8,
    /// expiry of root, timestamp, snapshot, targets relative to T0, in ms (never 0)
    pub margins: [i64; 4],
    /// number of expired intermediate roots before the final root (0..=2)
    pub expired_intermediates: u8,
    /// operations after the initial load at T0
    pub ops: Vec<(OpKind, At)>,
}

fn enforcement(case: &Case) -> Option<ExpirationEnforcement> {
    match case.enforcement % 3 {
        0 => None,
        1 => Some(ExpirationEnforcement::Safe),
        _ => Some(ExpirationEnforcement::Unsafe),
    }
}

fn ms(x: i64) -> Duration {
    Duration::milliseconds(x)
}

pub fn prop(case: &Case) -> Outcome {
    let mut o = Outcome::new();
    let safe = case.enforcement % 3 != 2;
    let expiry: Vec<DateTime<Utc>> = case.margins.iter().map(|m| t0() + ms(if *m == 0 { 1 } else { *m })).collect();
    // repository: k expired intermediate roots, then the final root
    let k = case.expired_intermediates.min(2) as usize;
    let mut s = Simple::basic(case.consistent);
    let mut roots = Vec::new();
    for v in 1..=k + 1 {
        let mut r = RootSpec::basic(v as u64, case.consistent);
        r.expires = if v == k + 1 { expiry[0] } else { t0() - Duration::days(400 * v as i64) };
        roots.push(r);
    }
    s.roots = roots;
    s.ts_expires = expiry[1];
    s.snap_expires = expiry[2];
    s.targets_expires = expiry[3];
    s.targets = vec![("a.txt".into(), b"content of a".to_vec())];
    let built = s.build();
    let mem = MemTransport::new();
    built.install(&mem);
    let sandbox = tempfile::tempdir().expect("tempdir");
    let ds = sandbox.path().join("datastore");
    let out = sandbox.path().join("out");
    std::fs::create_dir_all(&ds).unwrap();
    std::fs::create_dir_all(&out).unwrap();
    let opts = LoadOpts { datastore: Some(ds.clone()), limits: None, enforcement: enforcement(case) };
    let shipped = built.shipped(1);
    let name = TargetName::new("a.txt").unwrap();

    let expired_subset: Vec<bool> = case.margins.iter().map(|m| *m < 0).collect();
    o.label(format!("mode:{}", ["default", "safe", "unsafe"][case.enforcement as usize % 3]));
    o.label(format!("expired-at-t0:{}", expired_subset.iter().filter(|x| **x).count()));

    let mut clock = t0();
    let mut latest: Option<DateTime<Utc>> = None; // latest time the client recorded
    let mut repo: Option<tough::Repository> = None;
    let mut nonmonotone = false;
    let mut ops: Vec<(OpKind, At)> = vec![(OpKind::Load, At::Rel(0))];
    ops.extend(case.ops.iter().cloned());
    for (i, (kind, at)) in ops.iter().enumerate() {
        clock = match at {
            At::Rel(d) => clock + ms(*d),
            At::Near(r, off) => expiry[*r as usize % 4] + ms(if *off == 0 { 1 } else { *off }),
        };
        crate::rt::set_now(clock);
        let backward = safe && latest.map_or(false, |l| clock < l);
        if backward {
            nonmonotone = true;
        }
        let on_boundary = expiry.iter().any(|e| *e == clock);
        let first_expired = (0..4).find(|r| clock > expiry[*r]);
        let earliest = *expiry.iter().min().unwrap();
        match kind {
            OpKind::Load => {
                let r = forge::load(&mem, &shipped, &opts);
                let what = format!("op {i} load at T0{:+}ms (expiries {:?} ms, mode {})", (clock - t0()).num_milliseconds(), case.margins, case.enforcement % 3);
                if !safe {
                    match r {
                        Ok(rp) => repo = Some(rp),
                        Err(e) => {
                            o.fail(format!("{what}: enforcement is switched off but the load failed: {e}"));
                            return o;
                        }
                    }
                } else if backward {
                    match &r {
                        Err(e) if classify(e) == ErrClass::TimeBackward => o.label("backward-refused"),
                        Err(e) => {
                            o.fail(format!("{what}: clock is earlier than the recorded {:?}; expected the stepped-backward failure, got: {e}", latest));
                            return o;
                        }
                        Ok(_) => {
                            o.fail(format!("{what}: clock is earlier than a time recorded in the datastore ({:?}) but the load succeeded", latest));
                            return o;
                        }
                    }
                } else if !on_boundary {
                    match (&r, first_expired) {
                        (Ok(_), None) => {}
                        (Ok(_), Some(rl)) => {
                            o.fail(format!("{what}: {} metadata is expired but the load succeeded", ROLES[rl]));
                            return o;
                        }
                        (Err(e), None) => {
                            o.fail(format!("{what}: nothing is expired and the clock did not go back, but the load failed: {e}"));
                            return o;
                        }
                        (Err(e), Some(rl)) => {
                            let ok = matches!(e, tough::error::Error::ExpiredMetadata { role, .. } if role.to_string() == ROLES[rl]);
                            if !ok {
                                o.fail(format!("{what}: expected 'expired {}' failure, got: {e}", ROLES[rl]));
                                return o;
                            }
                            o.label("expired-refused");
                        }
                    }
                    latest = Some(latest.map_or(clock, |l| l.max(clock)));
                    if let Ok(rp) = r {
                        repo = Some(rp);
                    }
                } else {
                    // boundary instant: either verdict; the client recorded the time
                    latest = Some(latest.map_or(clock, |l| l.max(clock)));
                    if let Ok(rp) = r {
                        repo = Some(rp);
                    }
                }
            }
            OpKind::Read | OpKind::Save | OpKind::SaveDigest | OpKind::Cache => {
                let Some(rp) = repo.as_ref() else { continue };
                let res: Result<(), tough::error::Error> = crate::rt::block_on(async {
                    match kind {
                        OpKind::Read => match rp.read_target(&name).await? {
                            Some(stream) => stream.into_vec().await.map(|_| ()),
                            None => Ok(()),
                        },
                        OpKind::SaveDigest => rp.save_target(&name, &out, Prefix::Digest).await,
                        OpKind::Cache => {
                            let dir = out.join(format!("cache-{i}"));
                            rp.cache(dir.join("metadata"), dir.join("targets"), None::<&[&str]>, false).await
                        }
                        _ => rp.save_target(&name, &out, Prefix::None).await,
                    }
                });
                let what = format!("op {i} {:?} at T0{:+}ms (expiries {:?} ms, mode {})", kind, (clock - t0()).num_milliseconds(), case.margins, case.enforcement % 3);
                if !safe {
                    if let Err(e) = res {
                        o.fail(format!("{what}: enforcement is switched off but the operation failed: {e}"));
                        return o;
                    }
                } else if backward {
                    match &res {
                        Err(e) if classify(e) == ErrClass::TimeBackward => o.label("backward-refused"),
                        Err(e) => {
                            o.fail(format!("{what}: clock earlier than recorded {:?}; expected the stepped-backward failure, got: {e}", latest));
                            return o;
                        }
                        Ok(()) => {
                            o.fail(format!("{what}: clock is earlier than a time recorded in the datastore ({:?}) but the operation succeeded", latest));
                            return o;
                        }
                    }
                } else {
                    if clock != earliest {
                        let must_fail = clock > earliest;
                        match (&res, must_fail) {
                            (Ok(()), false) => {}
                            (Err(e), true) => {
                                if classify(e) != ErrClass::Expired {
                                    o.fail(format!("{what}: expected an 'expired' failure, got: {e}"));
                                    return o;
                                }
                                o.label("expired-read-refused");
                            }
                            (Ok(()), true) => {
                                o.fail(format!("{what}: the earliest expiration (T0{:+}ms) has passed but the target was delivered", (earliest - t0()).num_milliseconds()));
                                return o;
                            }
                            (Err(e), false) => {
                                o.fail(format!("{what}: nothing is expired and the clock did not go back, but the operation failed: {e}"));
                                return o;
                            }
                        }
                    }
                    latest = Some(latest.map_or(clock, |l| l.max(clock)));
                }
            }
        }
    }
    if nonmonotone {
        o.label("non-monotone-clock");
    }
    if k > 0 {
        o.label("expired-intermediate-roots");
    }
    o.nontrivial = case.margins.iter().any(|m| *m < 0) || nonmonotone || ops.iter().any(|(_, at)| matches!(at, At::Near(..)));
    o.shape = format!("{:?}", case);
    o
}

const SCALE: [i64; 9] = [1, 999, 1_000, 60_000, 3_600_000, 86_400_000, 30 * 86_400_000, 365 * 86_400_000, 50 * 365 * 86_400_000];

fn magnitude() -> impl Strategy<Value = i64> {
    prop_oneof![
        3 => prop::sample::select(SCALE.to_vec()),
        1 => 1i64..5_000_000_000,
    ]
}

fn margin() -> impl Strategy<Value = i64> {
    (magnitude(), prop::bool::weighted(0.25)).prop_map(|(m, neg)| if neg { -m } else { m })
}

fn at() -> impl Strategy<Value = At> {
    prop_oneof![
        2 => Just(At::Rel(0)),
        3 => magnitude().prop_map(At::Rel),
        3 => magnitude().prop_map(|m| At::Rel(-m)),
        3 => (0u8..4, prop::sample::select(vec![1i64, 2, 1000, 60_000])).prop_map(|(r, e)| At::Near(r, e)),
        3 => (0u8..4, prop::sample::select(vec![1i64, 2, 1000, 60_000])).prop_map(|(r, e)| At::Near(r, -e)),
    ]
}

fn op() -> impl Strategy<Value = (OpKind, At)> {
    (prop::sample::select(vec![OpKind::Load, OpKind::Load, OpKind::Read, OpKind::Read, OpKind::Save, OpKind::SaveDigest, OpKind::Cache]), at())
}

fn case_strategy() -> impl Strategy<Value = Case> {
    (
        any::<bool>(),
        prop_oneof![2 => Just(0u8), 2 => Just(1u8), 1 => Just(2u8)],
        [margin(), margin(), margin(), margin()],
        prop_oneof![3 => Just(0u8), 1 => 1u8..=2],
        prop::collection::vec(op(), 0..6),
    )
        .prop_map(|(consistent, enforcement, margins, expired_intermediates, ops)| Case { consistent, enforcement, margins, expired_intermediates, ops })
}

fn grid() -> Vec<Case> {
    let mut v = Vec::new();
    for mode in 0..3u8 {
        for subset in 0..16u8 {
            for after in [At::Rel(0), At::Rel(1000)] {
                let day = 86_400_000i64;
                let m = |bit: u8| if subset & (1 << bit) != 0 { -day } else { day };
                v.push(Case {
                    consistent: subset % 2 == 0,
                    enforcement: mode,
                    margins: [m(0), m(1), m(2), m(3)],
                    expired_intermediates: (subset % 3) as u8,
                    ops: vec![(OpKind::Read, after), (OpKind::Save, At::Rel(0)), (OpKind::SaveDigest, At::Rel(0)), (OpKind::Cache, At::Rel(0))],
                });
            }
        }
    }
    v
}

pub fn check(ctx: &Ctx) -> Vec<PartReport> {
    let mut out = Vec::new();
    out.push(run_part(
        ctx,
        PartSpec {
            name: "subsets",
            rule: "EXHAUSTIVE: every subset of {root, timestamp, snapshot, targets} expired by one day x enforcement {default, Safe, Unsafe} x {read immediately, read one second later}, with 0..2 expired intermediate roots; load at T0 then read_target and save_target. Non-trivial: a role expired; distinct = whole case",
            mode: Mode::Enumerate { cases: grid(), complete: true },
            prop: Box::new(prop),
            require: vec![],
        },
    ));
    let n = ctx.cases(30_000, 500_000);
    out.push(run_part(
        ctx,
        PartSpec {
            name: "trajectories",
            rule: "random: per role an expiry T0 +/- {1 ms .. 50 years} (log scale, 25% in the past), enforcement default/Safe/Unsafe, 0..2 expired intermediate roots, then a load at T0 followed by up to 5 operations (load / read_target / save_target on the last loaded repository) at clock values reached by forward or backward jumps of 1 ms .. 50 years or placed 1 ms .. 1 min before/after a chosen role's expiry, all on one datastore. Oracle: Safe: load Ok iff no role's expiry has passed; read/save fail iff the earliest expiry has passed; any operation whose clock is earlier than the latest time an earlier operation recorded must fail with the stepped-backward error; Unsafe: nothing fails. Non-trivial: a role expired at T0, a clock value placed at an expiry boundary, or a non-monotone clock; distinct = whole case",
            mode: Mode::Random { cases: n, strategy: Box::new(|| bx(case_strategy())) },
            prop: Box::new(prop),
            require: vec![
                ("backward-refused", n as u64 / 20),
                ("expired-refused", n as u64 / 20),
                ("expired-read-refused", n as u64 / 40),
                ("mode:unsafe", n as u64 / 10),
                ("expired-intermediate-roots", n as u64 / 10),
            ],
        },
    ));
    out
}

pub fn replay(_ctx: &Ctx, _part: &str, case: &Value) -> Outcome {
    crate::engine::replay_case::<Case>(case, prop)
}
