//! C03 — rollback protection across update cycles that share a datastore.
//!
//! Histories of 2..4 cycles on one datastore directory. Every file is genuinely signed by the keys
//! of the root it is served with and unexpired: the attacker only replays. Oracle: a two-sided
//! model of the statement (safety with the statement's exemption read as permissively as the text
//! allows; liveness for cycles that are at least as new as everything served before).

use crate::engine::{bx, run_part, Ctx, Mode, Outcome, PartReport, PartSpec};
use crate::forge::{self, classify, LoadOpts, RoleKeys, RootSpec, Simple};
use crate::transport::MemTransport;
use proptest::prelude::*;
use serde::{Deserialize, Serialize};
use serde_json::Value;

pub const KF_STALE_SHIPPED: &str = "stale-shipped-root-voids-rollback-protection";
pub const KF_ROOT_NOT_REMEMBERED: &str = "trusted-root-not-remembered";

pub fn info() -> super::Info {
    super::Info {
        level: "exploration",
        assumptions: vec![
            "the root role's own keys never change in these histories (C02 covers root rotation); newer roots change the keys of timestamp / snapshot / targets",
            "the exemption of the statement is read permissively: any root newer than trusted_j that the client walked to in any cycle after j (up to and including k) and that changed keys or threshold of the role (for timestamp and snapshot, and for the targets version listed in the snapshot: of either of the two) lifts the constraint",
            "versions lower than something only a failed cycle stored may be accepted or refused",
        ],
    }
}

#[derive(Clone, Copy, Debug, Serialize, Deserialize, PartialEq, Eq)]
pub enum Chg {
    None,
    /// replace the key
    Replace,
    /// add a second key, threshold stays 1 (an old key remains authorized)
    Add,
    /// add a second key and raise the threshold to 2
    Threshold2,
    /// back to the keys of root 1 (meaningful for root 3)
    Back,
}

#[derive(Clone, Debug, Serialize, Deserialize, PartialEq, Eq)]
pub struct Cycle {
    /// newest root version served (1..=3) and the keys everything is signed with
    pub newest_root: u8,
    /// shipped root version (monotone map onto 1..=newest_root)
    pub shipped: u16,
    pub ts: u8,
    pub snap: u8,
    pub targets: u8,
    /// targets version listed in the snapshot; 0 = entry dropped
    pub listed: u8,
    /// 0: targets.json is signed with the targets keys of the newest root (normal). r > 0: with the
    /// targets keys of root r (<= newest): a file from before a targets-key change, replayed as is
    #[serde(default)]
    pub targets_signed_as_of_root: u8,
}

#[derive(Clone, Debug, Serialize, Deserialize, PartialEq, Eq)]
pub struct Case {
    pub consistent: bool,
    /// changes introduced by root 2 and root 3 for (timestamp, snapshot, targets)
    pub root2: (Chg, Chg, Chg),
    pub root3: (Chg, Chg, Chg),
    pub cycles: Vec<Cycle>,
}

const K_ROOT: usize = 0;

fn role_at(role: usize, version: usize, case: &Case) -> RoleKeys {
    // role: 0 timestamp, 1 snapshot, 2 targets. keys: base 1+role; replacements from 4.. upwards
    let base = RoleKeys::one(1 + role);
    let apply = |prev: &RoleKeys, c: Chg, fresh: usize| -> RoleKeys {
        match c {
            Chg::None => prev.clone(),
            Chg::Replace => RoleKeys::one(fresh),
            Chg::Add => {
                let mut k = prev.keys.clone();
                if !k.contains(&fresh) {
                    k.push(fresh);
                }
                RoleKeys::new(k, prev.threshold)
            }
            Chg::Threshold2 => {
                let mut k = prev.keys.clone();
                if !k.contains(&fresh) {
                    k.push(fresh);
                }
                RoleKeys::new(k, 2)
            }
            Chg::Back => base.clone(),
        }
    };
    let c2 = [case.root2.0, case.root2.1, case.root2.2][role];
    let c3 = [case.root3.0, case.root3.1, case.root3.2][role];
    let r1 = base.clone();
    let r2 = apply(&r1, c2, 4 + role);
    let r3 = apply(&r2, c3, 7 + role);
    match version {
        1 => r1,
        2 => r2,
        _ => r3,
    }
}

fn root_spec(version: usize, case: &Case) -> RootSpec {
    let mut r = RootSpec::basic(version as u64, case.consistent);
    r.root = RoleKeys::one(K_ROOT);
    r.timestamp = role_at(0, version, case);
    r.snapshot = role_at(1, version, case);
    r.targets = role_at(2, version, case);
    r
}

/// did root `v` (2 or 3) change keys or threshold of `role` relative to root v-1?
fn changed(role: usize, v: usize, case: &Case) -> bool {
    role_at(role, v, case) != role_at(role, v - 1, case)
}

/// tough's own step-1.9 condition for a cycle: the timestamp or snapshot *key list* of the shipped
/// root differs from that of the root trusted at the end of the walk
fn tough_deletes(case: &Case, shipped: usize, trusted: usize) -> bool {
    role_at(0, shipped, case).keys != role_at(0, trusted, case).keys
        || role_at(1, shipped, case).keys != role_at(1, trusted, case).keys
}

#[derive(Debug, Clone)]
struct Done {
    ok: bool,
    trusted_root: usize,
    shipped: usize,
    newest: usize,
    v: [u64; 4], // ts, snap, targets, listed
    err: String,
    /// the cycle offers a file that is not signed by currently authorized keys
    must_fail: bool,
}

pub fn prop_with(case: &Case, known_stale: bool, known_root: bool) -> Outcome {
    let mut o = Outcome::new();
    crate::rt::set_now(crate::rt::t0());
    let dir = tempfile::tempdir().expect("tempdir");
    let mut done: Vec<Done> = Vec::new();
    let mut any_key_change = false;
    for (ci, c) in case.cycles.iter().enumerate() {
        let newest = c.newest_root.clamp(1, 3) as usize;
        let shipped = 1 + crate::engine::pick_idx(c.shipped, newest);
        let mut s = Simple::basic(case.consistent);
        s.roots = (1..=newest).map(|v| root_spec(v, case)).collect();
        s.ts_version = c.ts.clamp(1, 3) as u64;
        s.snap_version = c.snap.clamp(1, 3) as u64;
        s.targets_version = c.targets.clamp(1, 3) as u64;
        let listed = c.listed.min(3) as u64;
        s.listed_targets_version = Some(listed.max(1));
        s.targets = vec![("a.txt".into(), b"a".to_vec())];
        let drop_listing = listed == 0;
        let signer_root = if c.targets_signed_as_of_root == 0 { newest } else { (c.targets_signed_as_of_root as usize).clamp(1, newest) };
        let stale_signers = role_at(2, signer_root, case).keys.clone();
        let newest_role = role_at(2, newest, case);
        let stale_rejected = (stale_signers.iter().filter(|k| newest_role.keys.contains(k)).count() as u64) < newest_role.threshold;
        let built = if signer_root != newest && !drop_listing {
            s.build_with(&|role, _signed, canon| {
                if role == "targets" {
                    Some(stale_signers.iter().map(|k| forge::sig_entry(crate::keys::key(*k), canon)).collect())
                } else {
                    None
                }
            })
        } else if drop_listing {
            s.build_full(
                &|role, signed| {
                    if role == "snapshot" {
                        signed["meta"].as_object_mut().unwrap().remove("targets.json");
                    }
                },
                &|_, _, _| None,
            )
        } else {
            s.build()
        };
        let mem = MemTransport::new();
        built.install(&mem);
        let r = forge::load(&mem, &built.shipped(shipped as u64), &LoadOpts { datastore: Some(dir.path().to_path_buf()), ..Default::default() });
        let d = match &r {
            Ok(repo) => {
                let listed_seen = repo.snapshot().signed.meta.get("targets.json").map(|m| m.version.get()).unwrap_or(0);
                Done {
                    ok: true,
                    trusted_root: repo.root().signed.version.get() as usize,
                    shipped,
                    newest,
                    v: [
                        repo.timestamp().signed.version.get(),
                        repo.snapshot().signed.version.get(),
                        repo.targets().signed.version.get(),
                        listed_seen,
                    ],
                    err: String::new(),
                    must_fail: false,
                }
            }
            Err(e) => Done {
                ok: false,
                trusted_root: newest,
                shipped,
                newest,
                v: [s.ts_version, s.snap_version, s.targets_version, if drop_listing { 0 } else { listed }],
                err: format!("{:?}: {e}", classify(e)),
                must_fail: signer_root != newest && stale_rejected,
            },
        };
        if d.ok && signer_root != newest && stale_rejected && !drop_listing {
            o.fail(format!(
                "cycle {ci}: succeeded although targets.json carries only signatures by the targets keys of root v{signer_root}, which the trusted root v{newest} no longer authorizes (a file stored by an earlier cycle must not be trusted without checking its signatures against the current root)"
            ));
            return o;
        }
        if signer_root != newest && stale_rejected {
            o.label("stale-signed-targets-offered");
        }
        if d.ok {
            // the repository object must report what was served
            let served = [s.ts_version, s.snap_version, s.targets_version, listed];
            if d.v != served {
                o.fail(format!("cycle {ci}: client reports versions {:?} but {:?} were served", d.v, served));
                return o;
            }
            if d.trusted_root != newest {
                o.fail(format!("cycle {ci}: trusted root v{} but v{newest} is the newest served (all roots correctly signed)", d.trusted_root));
                return o;
            }
        }
        if shipped != newest && (2..=newest).any(|v| v > shipped && (0..3).any(|r| changed(r, v, case))) {
            any_key_change = true;
        }
        done.push(d);
    }

    // ---- safety
    let names = ["timestamp", "snapshot", "targets", "snapshot-listed targets"];
    let mut lower_offered = false;
    let mut successes = 0;
    for k in 0..done.len() {
        if !done[k].ok {
            continue;
        }
        successes += 1;
        for j in 0..k {
            if !done[j].ok {
                continue;
            }
            for r in 0..4 {
                if done[k].v[r] >= done[j].v[r] {
                    continue;
                }
                // exemption of the statement
                let (tj, tk) = (done[j].trusted_root, done[k].trusted_root);
                let roles: &[usize] = match r {
                    0 | 1 => &[0, 1],
                    2 => &[2],
                    // the listing lives in the snapshot: the role concerned is snapshot (hence
                    // timestamp or snapshot), as in the TUF specification's fast-forward recovery
                    _ => &[0, 1],
                };
                // "a root newer than the one trusted in the earlier cycle": any root the client came
                // to trust in a successful cycle after j, up to and including k
                // (a cycle that failed after the root walk still trusted that root and stored state under it)
                let newest_trusted = (j + 1..=k).map(|m| done[m].trusted_root).max().unwrap_or(tk);
                let exempt = (tj + 1..=newest_trusted).any(|v| roles.iter().any(|role| changed(*role, v, case)));
                if exempt {
                    o.label("rollback-allowed-after-key-change");
                    continue;
                }
                // known findings (same root cause: the client does not remember the root it trusted)
                let stale = (j + 1..=k).any(|m| tough_deletes(case, done[m].shipped, done[m].trusted_root.max(done[m].newest)));
                let went_back = (j + 1..=k).any(|m| done[m].newest < tj);
                if went_back {
                    if known_root {
                        o.known_hits += 1;
                        o.label("known:root-not-remembered");
                        continue;
                    }
                    o.fail(format!(
                        "cycle {j} succeeded with {} v{} (trusting root v{tj}); cycle {k} then succeeded with v{} while trusting an OLDER root (v{tk}): the client does not remember the root it trusted [{KF_ROOT_NOT_REMEMBERED}]",
                        names[r], done[j].v[r], done[k].v[r]
                    ));
                    return o;
                }
                if stale && r != 2 {
                    if known_stale {
                        o.known_hits += 1;
                        o.label("known:stale-shipped-root");
                        continue;
                    }
                    o.fail(format!(
                        "cycle {j} succeeded with {} v{} and cycle {k} succeeded with v{} although no root newer than v{tj} changed the keys concerned (both trusted root v{tk}); the shipped root is older than a timestamp/snapshot key rotation, so every cycle deletes the stored timestamp and snapshot [{KF_STALE_SHIPPED}]",
                        names[r], done[j].v[r], done[k].v[r]
                    ));
                    return o;
                }
                o.fail(format!(
                    "rollback accepted: cycle {j} succeeded with {} v{} (root v{tj}), cycle {k} succeeded with v{} (root v{tk}); no root in between changed the keys or threshold concerned. history: {:?}",
                    names[r], done[j].v[r], done[k].v[r], done.iter().map(|d| (d.ok, d.shipped, d.newest, d.v)).collect::<Vec<_>>()
                ));
                return o;
            }
        }
    }
    // ---- liveness
    for k in 0..done.len() {
        let c = &done[k];
        let consistent_files = c.v[2] == c.v[3];
        if !consistent_files || c.must_fail {
            continue;
        }
        let newer_than_all = (0..k).all(|j| (0..4).all(|r| c.v[r] >= done[j].v[r]) && c.newest >= done[j].newest);
        if (0..k).any(|j| (0..4).any(|r| c.v[r] < done[j].v[r])) {
            lower_offered = true;
        }
        if newer_than_all && !c.ok {
            o.fail(format!(
                "lock-out: cycle {k} offers versions {:?} (root v{}), each >= everything served before, all files correctly signed and unexpired, but it failed: {}. history: {:?}",
                c.v, c.newest, c.err, done.iter().map(|d| (d.ok, d.shipped, d.newest, d.v)).collect::<Vec<_>>()
            ));
            return o;
        }
    }
    for k in 0..done.len() {
        if (0..k).any(|j| done[j].ok && (0..4).any(|r| done[k].v[r] < done[j].v[r])) {
            lower_offered = true;
        }
    }
    if done.iter().any(|d| !d.ok) {
        o.label("has-failed-cycle");
    }
    if any_key_change {
        o.label("key-change-between-shipped-and-newest");
    }
    if lower_offered {
        o.label("lower-version-offered");
    }
    if done.iter().any(|d| !d.ok && d.err.starts_with("OlderMetadata")) {
        o.label("rollback-refused");
    }
    o.label(format!("successes:{successes}"));
    o.nontrivial = lower_offered && done.iter().filter(|d| d.ok).count() >= 1 && done.len() >= 2;
    o.shape = format!("{:?}", case);
    o
}

fn chg() -> impl Strategy<Value = Chg> {
    prop_oneof![
        5 => Just(Chg::None),
        2 => Just(Chg::Replace),
        2 => Just(Chg::Add),
        1 => Just(Chg::Threshold2),
        1 => Just(Chg::Back),
    ]
}

fn cycle() -> impl Strategy<Value = Cycle> {
    (1u8..=3, any::<u16>(), 1u8..=3, 1u8..=3, 1u8..=3, prop_oneof![1 => Just(0u8), 12 => 1u8..=3], prop::bool::weighted(0.75), prop_oneof![6 => Just(0u8), 1 => 1u8..=3])
        .prop_map(|(newest_root, shipped, ts, snap, targets, listed, tie, targets_signed_as_of_root)| Cycle {
            newest_root,
            shipped,
            ts,
            snap,
            targets,
            // most cycles are internally consistent (listed == targets) so that they can succeed
            listed: if tie && listed != 0 { targets } else { listed },
            targets_signed_as_of_root,
        })
}

fn case_strategy() -> impl Strategy<Value = Case> {
    (any::<bool>(), (chg(), chg(), chg()), (chg(), chg(), chg()), prop::collection::vec(cycle(), 2..=4))
        .prop_map(|(consistent, root2, root3, cycles)| Case { consistent, root2, root3, cycles })
}

/// histories without any key change: one root only
fn case_strategy_plain() -> impl Strategy<Value = Case> {
    (any::<bool>(), prop::collection::vec(cycle(), 2..=4)).prop_map(|(consistent, mut cycles)| {
        for c in &mut cycles {
            c.newest_root = 1;
        }
        Case { consistent, root2: (Chg::None, Chg::None, Chg::None), root3: (Chg::None, Chg::None, Chg::None), cycles }
    })
}

fn grid() -> Vec<Case> {
    let mut v = Vec::new();
    let none = (Chg::None, Chg::None, Chg::None);
    for consistent in [false, true] {
        for a in 0..81u32 {
            for b in 0..81u32 {
                let mk = |x: u32| Cycle {
                    newest_root: 1,
                    shipped: 0,
                    ts: 1 + (x % 3) as u8,
                    snap: 1 + (x / 3 % 3) as u8,
                    targets: 1 + (x / 9 % 3) as u8,
                    listed: 1 + (x / 27 % 3) as u8,
                    targets_signed_as_of_root: 0,
                };
                v.push(Case { consistent, root2: none, root3: none, cycles: vec![mk(a), mk(b)] });
            }
        }
    }
    v
}

pub fn check(ctx: &Ctx) -> Vec<PartReport> {
    let ks = ctx.known.is_known("C03", KF_STALE_SHIPPED);
    let kr = ctx.known.is_known("C03", KF_ROOT_NOT_REMEMBERED);
    let mut out = Vec::new();
    out.push(run_part(
        ctx,
        PartSpec {
            name: "two-cycle-grid",
            rule: "EXHAUSTIVE: every pair of cycles whose (timestamp, snapshot, targets, snapshot-listed targets) versions range over {1,2,3}^4 each, one root, both consistent-snapshot settings (13122 histories on a shared datastore). Oracle: safety and liveness model of the statement. Non-trivial: the second cycle offers a lower version of something; distinct = whole history",
            mode: Mode::Enumerate { cases: grid(), complete: true },
            prop: Box::new(move |c: &Case| prop_with(c, ks, kr)),
            require: vec![],
        },
    ));
    let n = ctx.cases(12_000, 80_000);
    out.push(run_part(
        ctx,
        PartSpec {
            name: "histories-plain",
            rule: "random histories of 2..4 cycles, one root, versions 1..3 per role per cycle, 25% of cycles internally inconsistent (listed != targets version, or the targets entry dropped from the snapshot: such a cycle fails after part of its state was stored). Non-trivial: a lower version offered after a success; distinct = whole history",
            mode: Mode::Random { cases: n, strategy: Box::new(|| bx(case_strategy_plain())) },
            prop: Box::new(move |c: &Case| prop_with(c, ks, kr)),
            require: vec![("has-failed-cycle", n as u64 / 10), ("rollback-refused", n as u64 / 10), ("lower-version-offered", n as u64 / 4)],
        },
    ));
    let n2 = ctx.cases(16_000, 120_000);
    out.push(run_part(
        ctx,
        PartSpec {
            name: "histories-rotation",
            rule: "random histories of 2..4 cycles with roots 1..3; roots 2 and 3 change the keys of timestamp / snapshot / targets independently (none, replace, add a key, add a key and raise the threshold, rotate back); per cycle the newest root served and the shipped root (<= newest) are free. Non-trivial: a lower version offered after a success; distinct = whole history",
            mode: Mode::Random { cases: n2, strategy: Box::new(|| bx(case_strategy())) },
            prop: Box::new(move |c: &Case| prop_with(c, ks, kr)),
            require: vec![
                ("rollback-allowed-after-key-change", n2 as u64 / 100),
                ("key-change-between-shipped-and-newest", n2 as u64 / 20),
                ("rollback-refused", n2 as u64 / 20),
                ("stale-signed-targets-offered", n2 as u64 / 100),
            ],
        },
    ));
    out
}

pub fn replay(ctx: &Ctx, _part: &str, case: &Value) -> Outcome {
    let ks = ctx.known.is_known("C03", KF_STALE_SHIPPED);
    let kr = ctx.known.is_known("C03", KF_ROOT_NOT_REMEMBERED);
    crate::engine::replay_case::<Case>(case, |c| prop_with(c, ks, kr))
}

/// Directed probes for the two listed findings.
pub fn probes(_ctx: &Ctx) -> Vec<super::Probe> {
    let none = (Chg::None, Chg::None, Chg::None);
    let cyc = |newest: u8, shipped_one: bool, v: u8| Cycle { newest_root: newest, shipped: if shipped_one { 0 } else { u16::MAX }, ts: v, snap: v, targets: 1, listed: 1, targets_signed_as_of_root: 0 };
    // (a) shipped root 1, root 2 replaces the timestamp key; three cycles all trusting root 2
    let a = Case { consistent: false, root2: (Chg::Replace, Chg::None, Chg::None), root3: none, cycles: vec![cyc(2, true, 3), cyc(2, true, 3), cyc(2, true, 2)] };
    let oa = prop_with(&a, false, false);
    // (b) cycle 1 trusts root 2 (shipped root 1); cycle 2 is served root 1 only with older files
    let b = Case { consistent: false, root2: (Chg::Replace, Chg::Replace, Chg::Replace), root3: none, cycles: vec![cyc(2, true, 3), cyc(1, true, 2)] };
    let ob = prop_with(&b, false, false);
    vec![
        super::Probe {
            key: KF_STALE_SHIPPED.into(),
            what: "a client whose shipped root predates a timestamp/snapshot key rotation deletes its stored timestamp and snapshot in every cycle: after two successful cycles at timestamp/snapshot v3 (trusting root v2), a replayed v2 is accepted".into(),
            reproduced: oa.fail.as_deref().map_or(false, |m| m.contains(KF_STALE_SHIPPED)),
            detail: oa.fail.unwrap_or_else(|| "not reproduced".into()),
        },
        super::Probe {
            key: KF_ROOT_NOT_REMEMBERED.into(),
            what: "the client does not remember the root it trusted: after a successful cycle trusting root v2, a repository that withholds 2.root.json and replays older files signed by root v1's keys is accepted".into(),
            reproduced: ob.fail.as_deref().map_or(false, |m| m.contains(KF_ROOT_NOT_REMEMBERED)),
            detail: ob.fail.unwrap_or_else(|| "not reproduced".into()),
        },
    ]
}
