//! C18 — HTTP transport: exactly the resource bytes or an error, retries bounded.
//!
//! A scripted HTTP/1.1 server (plain tokio `TcpListener` on 127.0.0.1, one request per connection,
//! `Connection: close`) runs on the same current-thread runtime as the client. The i-th request of
//! a fetch is answered by the i-th action of the script (requests beyond the script get its last
//! action; an empty script is a well-behaved server). The client is the real
//! `tough::HttpTransportBuilder` transport; the stream is pulled item by item and every item is
//! compared with the resource on the spot.
//!
//! Oracle (computed from the case, the items the stream yielded and the server's request log;
//! nothing is asked of tough):
//!  * safety, always: delivered bytes are a prefix of the resource at every moment; a stream that
//!    ends without an error item delivered the whole resource; a 403/404/410 answer is the last
//!    request and the stream ends with an error of kind FileNotFound; a 400/416 answer is the last
//!    request and the stream ends with an error of kind Other; requests per fetch <= tries; a
//!    request made after bytes were delivered carries `Range: bytes=<delivered>-` and is only made
//!    when an earlier answer announced `Accept-Ranges: bytes`.
//!  * liveness, only for scripts without any stall action (timing-free): fewer than `tries` 5xx
//!    answers followed by a complete 200 => the stream ends without error (hence complete).
//!
//! The only timer involved in a stall is the client's own (150 ms); for scripts without a stall the
//! client timeout is set to 5 s so that it cannot fire on a loaded machine. A failing case is
//! evaluated a second time with a ten times longer client timeout before it is reported: a genuine
//! defect of the retry logic does not depend on the timeout value, a spurious client-side time-out
//! of a fast answer does (such a case is counted as inconclusive, never as a violation).

use crate::engine::{bx, run_part, Ctx, Mode, Outcome, PartReport, PartSpec};
use futures::StreamExt;
use proptest::prelude::*;
use serde::{Deserialize, Serialize};
use serde_json::Value;
use std::sync::atomic::{AtomicUsize, Ordering};
use std::sync::{Arc, Mutex};
use std::time::Duration;
use tokio::io::{AsyncReadExt, AsyncWriteExt};
use tokio::net::{TcpListener, TcpStream};
use tough::{HttpTransportBuilder, Transport, TransportErrorKind};

pub const KF_TRIES_PLUS_ONE: &str = "tries-plus-one-requests";

const PATH: &str = "/dir/resource.bin";
/// the client's own timer for scripts that contain a stall
const STALL_TIMEOUT_MS: u64 = 150;
/// client timeout for scripts without a stall: never meant to fire
const CALM_TIMEOUT_MS: u64 = 5_000;
/// the harness' own guard per evaluation: reaching it is inconclusive, never a violation
const GUARD_S: u64 = 20;

pub fn info() -> super::Info {
    super::Info {
        level: "fault_enumeration",
        assumptions: vec![
            "the server is a scripted HTTP/1.1 server on 127.0.0.1 that answers one request per connection (Connection: close); with range support every 200/206 announces Accept-Ranges: bytes and `Range: bytes=N-` is answered 206 from offset N, without it the header is never announced and Range is ignored",
            "a stall is 'headers with the full Content-Length, k body bytes, then silence until the peer closes': the only timer involved is the client's own (150 ms); for scripts with a stall action only safety is asserted",
            "liveness (fewer than `tries` 5xx answers before a complete 200 => success) is asserted only for scripts without any stall action, with a client timeout of 5 s that is not meant to fire",
            "a failing case is re-evaluated with a ten times longer client timeout and reported only if it fails again (otherwise inconclusive)",
            "no HTTP(S)_PROXY variable is set in the environment of the check (reqwest would honour it)",
            "the listed known finding tries-plus-one-requests (exactly tries+1 requests) is tolerated only while known_findings.json lists it with status known; more than tries+1 requests always fails",
        ],
    }
}

#[derive(Clone, Copy, Debug, Serialize, Deserialize, PartialEq, Eq)]
pub enum Action {
    Ok200Full,
    /// headers with the full Content-Length, then k body bytes, then hold the connection until the
    /// peer closes. `at` < 256: k = at bytes; otherwise k = size * at / 65536 (both capped by what
    /// is left of the body; if nothing is left to withhold the answer is simply complete)
    Ok200StallAfter { at: u16 },
    Err500,
    Err503,
    Err403,
    Err404,
    Err410,
    Err400,
    Err416,
}

pub const ACTIONS: [Action; 9] = [
    Action::Ok200Full,
    Action::Ok200StallAfter { at: 32768 },
    Action::Err500,
    Action::Err503,
    Action::Err403,
    Action::Err404,
    Action::Err410,
    Action::Err400,
    Action::Err416,
];

impl Action {
    fn name(&self) -> &'static str {
        match self {
            Action::Ok200Full => "Ok200Full",
            Action::Ok200StallAfter { .. } => "Ok200Stall",
            Action::Err500 => "Err500",
            Action::Err503 => "Err503",
            Action::Err403 => "Err403",
            Action::Err404 => "Err404",
            Action::Err410 => "Err410",
            Action::Err400 => "Err400",
            Action::Err416 => "Err416",
        }
    }
    fn status(&self) -> u16 {
        match self {
            Action::Ok200Full | Action::Ok200StallAfter { .. } => 200,
            Action::Err500 => 500,
            Action::Err503 => 503,
            Action::Err403 => 403,
            Action::Err404 => 404,
            Action::Err410 => 410,
            Action::Err400 => 400,
            Action::Err416 => 416,
        }
    }
    fn is_stall(&self) -> bool {
        matches!(self, Action::Ok200StallAfter { .. })
    }
}

#[derive(Clone, Debug, Serialize, Deserialize, PartialEq, Eq)]
pub struct Case {
    pub size: u32,
    pub content_seed: u32,
    pub tries: u8,
    pub accept_ranges: bool,
    pub script: Vec<Action>,
}

/// Deterministic, non-periodic content: 8 bytes per splitmix64 output of (seed, size, block index).
pub fn content(size: usize, seed: u32) -> Vec<u8> {
    let mut v = Vec::with_capacity(size + 8);
    let base = ((seed as u64) << 32) ^ (size as u64).wrapping_mul(0xD6E8_FEB8_6659_FD93);
    let mut i = 0u64;
    while v.len() < size {
        i += 1;
        let mut z = base.wrapping_add(i.wrapping_mul(0x9E37_79B9_7F4A_7C15));
        z = (z ^ (z >> 30)).wrapping_mul(0xBF58_476D_1CE4_E5B9);
        z = (z ^ (z >> 27)).wrapping_mul(0x94D0_49BB_1331_11EB);
        z ^= z >> 31;
        v.extend_from_slice(&z.to_le_bytes());
    }
    v.truncate(size);
    v
}

fn stall_k(at: u16, size: usize) -> usize {
    if at < 256 {
        (at as usize).min(size)
    } else {
        ((size as u64 * at as u64) >> 16) as usize
    }
}

/// action that answers request number `i` (0-based)
fn effective(script: &[Action], i: usize) -> Action {
    match script.get(i) {
        Some(a) => *a,
        None => script.last().copied().unwrap_or(Action::Ok200Full),
    }
}

// ------------------------------------------------------------------------------------------------
// scripted server

#[derive(Clone, Debug)]
struct Req {
    method: String,
    path: String,
    range_raw: Option<String>,
    range_start: Option<u64>,
    /// bytes the caller of the stream had received when this request arrived
    delivered_at: usize,
    /// what the server answered
    status: u16,
    /// answer carried `Accept-Ranges: bytes`
    announced: bool,
    /// body offset the answer started from and number of body bytes handed to the socket
    from: usize,
    sent: usize,
    /// part of the announced body was withheld
    stalled: bool,
}

struct Shared {
    resource: Vec<u8>,
    script: Vec<Action>,
    accept_ranges: bool,
    log: Mutex<Vec<Req>>,
    delivered: AtomicUsize,
    /// number of requests after which the client is declared a runaway
    cap: usize,
    runaway: tokio::sync::Notify,
}

async fn serve(listener: TcpListener, sh: Arc<Shared>) {
    let mut conns = tokio::task::JoinSet::new();
    loop {
        match listener.accept().await {
            Ok((sock, _)) => {
                let _ = sock.set_nodelay(true);
                conns.spawn(handle(sock, sh.clone()));
            }
            Err(_) => tokio::task::yield_now().await,
        }
        // reap finished connections so the set stays small
        while let Some(Some(_)) = futures::FutureExt::now_or_never(conns.join_next()) {}
    }
}

fn find_header_end(buf: &[u8]) -> Option<usize> {
    buf.windows(4).position(|w| w == b"\r\n\r\n")
}

fn parse_range(v: &str) -> Option<u64> {
    let rest = v.trim().strip_prefix("bytes=")?;
    let n = rest.strip_suffix('-')?;
    if n.is_empty() || !n.bytes().all(|b| b.is_ascii_digit()) {
        return None;
    }
    n.parse().ok()
}

fn reason(status: u16) -> &'static str {
    match status {
        200 => "OK",
        206 => "Partial Content",
        400 => "Bad Request",
        403 => "Forbidden",
        404 => "Not Found",
        410 => "Gone",
        416 => "Range Not Satisfiable",
        500 => "Internal Server Error",
        503 => "Service Unavailable",
        _ => "Status",
    }
}

async fn handle(mut sock: TcpStream, sh: Arc<Shared>) {
    let mut buf: Vec<u8> = Vec::new();
    let mut tmp = [0u8; 2048];
    let end = loop {
        match sock.read(&mut tmp).await {
            Ok(0) | Err(_) => return, // no complete request on this connection: not a request
            Ok(n) => buf.extend_from_slice(&tmp[..n]),
        }
        if let Some(e) = find_header_end(&buf) {
            break e;
        }
        if buf.len() > 16 * 1024 {
            return;
        }
    };
    let head = String::from_utf8_lossy(&buf[..end]).to_string();
    let mut lines = head.split("\r\n");
    let mut rl = lines.next().unwrap_or("").split(' ');
    let method = rl.next().unwrap_or("").to_string();
    let path = rl.next().unwrap_or("").to_string();
    let mut range_raw = None;
    for l in lines {
        if let Some((k, v)) = l.split_once(':') {
            if k.trim().eq_ignore_ascii_case("range") {
                range_raw = Some(v.trim().to_string());
            }
        }
    }
    let range_start = range_raw.as_deref().and_then(parse_range);
    let len = sh.resource.len();

    // decide the answer
    let idx = sh.log.lock().unwrap().len();
    let action = effective(&sh.script, idx);
    let mut status = action.status();
    let mut from = 0usize;
    if method != "GET" {
        status = 400;
    } else if path != PATH {
        status = 404;
    } else if status == 200 && sh.accept_ranges {
        if let Some(n) = range_start {
            if (n as usize) < len || (n == 0 && len == 0) {
                status = 206;
                from = n as usize;
            } else {
                status = 416; // unsatisfiable range: what a real server answers
            }
        }
    }
    let ok = status == 200 || status == 206;
    let announced = ok && sh.accept_ranges;
    let body: &[u8] = if ok { &sh.resource[from..] } else { b"scripted failure\n" };
    let send = match action {
        Action::Ok200StallAfter { at } if ok => stall_k(at, len).min(body.len()),
        _ => body.len(),
    };
    let stalled = send < body.len();
    let mut hdr = format!("HTTP/1.1 {status} {}\r\nContent-Length: {}\r\n", reason(status), body.len());
    if ok {
        hdr.push_str("Content-Type: application/octet-stream\r\n");
    } else {
        hdr.push_str("Content-Type: text/plain\r\n");
    }
    if announced {
        hdr.push_str("Accept-Ranges: bytes\r\n");
    }
    if status == 206 {
        hdr.push_str(&format!("Content-Range: bytes {}-{}/{}\r\n", from, len.saturating_sub(1), len));
    }
    if status == 416 && action.status() == 200 {
        hdr.push_str(&format!("Content-Range: bytes */{len}\r\n"));
    }
    hdr.push_str("Connection: close\r\n\r\n");

    let n_logged = {
        let mut log = sh.log.lock().unwrap();
        log.push(Req {
            method,
            path,
            range_raw,
            range_start,
            delivered_at: sh.delivered.load(Ordering::SeqCst),
            status,
            announced,
            from,
            sent: send,
            stalled,
        });
        log.len()
    };
    if n_logged >= sh.cap {
        sh.runaway.notify_one();
    }

    if sock.write_all(hdr.as_bytes()).await.is_err() {
        return;
    }
    if sock.write_all(&body[..send]).await.is_err() {
        return;
    }
    let _ = sock.flush().await;
    if stalled {
        // hold the connection until the peer goes away: no timer on this side
        loop {
            match sock.read(&mut tmp).await {
                Ok(0) | Err(_) => break,
                Ok(_) => {}
            }
        }
    } else {
        let _ = sock.shutdown().await;
    }
}

// ------------------------------------------------------------------------------------------------
// one fetch

#[derive(Debug)]
enum End {
    /// the stream ended without an error item
    Clean,
    Error { kind: TransportErrorKind, text: String },
    /// a delivered chunk was not the continuation of the resource (pulling stopped there)
    NotPrefix(String),
    /// the server saw more than tries+3 requests (pulling stopped there)
    Runaway,
    /// `fetch` itself returned an error
    FetchErr { kind: TransportErrorKind, text: String },
}

struct Obs {
    end: End,
    delivered: usize,
    chunks: usize,
    log: Vec<Req>,
}

async fn fetch_once(case: &Case, timeout: Duration) -> Result<Obs, String> {
    let size = case.size as usize;
    let tries = case.tries.max(1) as u32;
    let listener = TcpListener::bind(("127.0.0.1", 0)).await.map_err(|e| format!("bind: {e}"))?;
    let port = listener.local_addr().map_err(|e| format!("local_addr: {e}"))?.port();
    let sh = Arc::new(Shared {
        resource: content(size, case.content_seed),
        script: case.script.clone(),
        accept_ranges: case.accept_ranges,
        log: Mutex::new(Vec::new()),
        delivered: AtomicUsize::new(0),
        cap: tries as usize + 4,
        runaway: tokio::sync::Notify::new(),
    });
    let server = tokio::spawn(serve(listener, sh.clone()));

    let transport = HttpTransportBuilder::new()
        .tries(tries)
        .initial_backoff(Duration::from_millis(1))
        .max_backoff(Duration::from_millis(2))
        .backoff_factor(1.0)
        .timeout(timeout)
        .connect_timeout(timeout)
        .build();
    let url = url::Url::parse(&format!("http://127.0.0.1:{port}{PATH}")).map_err(|e| format!("url: {e}"))?;

    let mut delivered = 0usize;
    let mut chunks = 0usize;
    let end = match transport.fetch(url).await {
        Err(e) => End::FetchErr { kind: e.kind(), text: e.to_string().replace(&format!(":{port}/"), ":PORT/") },
        Ok(mut stream) => loop {
            let item = tokio::select! {
                biased;
                _ = sh.runaway.notified() => break End::Runaway,
                item = stream.next() => item,
            };
            match item {
                None => break End::Clean,
                Some(Err(e)) => break End::Error { kind: e.kind(), text: e.to_string().replace(&format!(":{port}/"), ":PORT/") },
                Some(Ok(b)) => {
                    chunks += 1;
                    let want = sh.resource.get(delivered..delivered + b.len());
                    if want != Some(b.as_ref()) {
                        let first_bad = (0..b.len()).find(|i| sh.resource.get(delivered + i) != Some(&b[*i])).unwrap_or(0);
                        // where in the resource does this chunk come from? (diagnostics only)
                        let origin = if b.len() >= 8 {
                            sh.resource.windows(b.len().min(16)).position(|w| w == &b[..b.len().min(16)])
                        } else {
                            None
                        };
                        break End::NotPrefix(format!(
                            "chunk #{chunks} of {} bytes arrived after {delivered} delivered bytes of a {size}-byte resource and differs from resource[{delivered}..] at chunk offset {first_bad}{}",
                            b.len(),
                            match origin {
                                Some(p) => format!(" (its first bytes are resource[{p}..])"),
                                None => String::new(),
                            }
                        ));
                    }
                    delivered += b.len();
                    sh.delivered.store(delivered, Ordering::SeqCst);
                }
            }
        },
    };
    server.abort();
    let _ = server.await;
    let log = sh.log.lock().unwrap().clone();
    Ok(Obs { end, delivered, chunks, log })
}

fn fmt_log(log: &[Req]) -> String {
    log.iter()
        .enumerate()
        .map(|(i, r)| {
            format!(
                "#{i} {} {}{} (caller had {} bytes) -> {}{}",
                r.method,
                if r.path == PATH { "<resource>" } else { r.path.as_str() },
                match &r.range_raw {
                    Some(x) => format!(" Range: {x}"),
                    None => String::new(),
                },
                r.delivered_at,
                r.status,
                if r.status == 200 || r.status == 206 {
                    format!(" body[{}..+{}]{}", r.from, r.sent, if r.stalled { " then stall" } else { "" })
                } else {
                    String::new()
                }
            )
        })
        .collect::<Vec<_>>()
        .join("; ")
}

/// One evaluation with the client timeout multiplied by `scale`.
fn eval(case: &Case, known: bool, scale: u32) -> Outcome {
    let mut o = Outcome::new();
    let size = case.size as usize;
    let tries = case.tries.max(1) as usize;
    let has_stall = case.script.iter().any(Action::is_stall);
    let timeout = Duration::from_millis(if has_stall { STALL_TIMEOUT_MS } else { CALM_TIMEOUT_MS } * scale as u64);

    // labels that depend on the case only
    o.label(format!("first:{}", effective(&case.script, 0).name()));
    o.label(if has_stall { "has-stall" } else { "no-stall" });
    o.label(if case.accept_ranges { "ranges" } else { "no-ranges" });
    o.label(format!("tries:{tries}"));
    o.shape = format!(
        "{}|{}|{}|{}",
        tries,
        case.accept_ranges,
        match size {
            0 => "0",
            1 => "1",
            2..=1024 => "<=1K",
            1025..=65536 => "<=64K",
            _ => "<=256K",
        },
        case.script
            .iter()
            .map(|a| match a {
                Action::Ok200StallAfter { at } => format!("Stall{}", match stall_k(*at, size) {
                    0 => "@0",
                    k if k >= size => "@end",
                    _ => "@mid",
                }),
                a => a.name().to_string(),
            })
            .collect::<Vec<_>>()
            .join(",")
    );

    let res = crate::rt::block_on(async { tokio::time::timeout(Duration::from_secs(GUARD_S), fetch_once(case, timeout)).await });
    let obs = match res {
        Err(_) => {
            o.inconclusive = 1;
            o.label("inconclusive:guard-20s");
            return o;
        }
        Ok(Err(e)) => {
            o.inconclusive = 1;
            o.label(format!("inconclusive:local-io:{}", e.split(':').next().unwrap_or("")));
            return o;
        }
        Ok(Ok(obs)) => obs,
    };
    let n = obs.log.len();
    let ctxt = |obs: &Obs| {
        format!(
            "tries={tries}, accept_ranges={}, size={size}, script={:?}; stream: {} chunks, {} bytes, end={}; requests: [{}]",
            case.accept_ranges,
            case.script,
            obs.chunks,
            obs.delivered,
            match &obs.end {
                End::NotPrefix(_) => "NotPrefix".to_string(),
                e => format!("{e:?}"),
            },
            fmt_log(&obs.log)
        )
    };

    // ---- labels from the observation
    o.label(format!("requests:{n}"));
    let served_fault = obs.log.iter().any(|r| r.stalled || !(r.status == 200 || r.status == 206));
    o.nontrivial = served_fault;
    if obs.log.iter().any(|r| r.stalled) {
        o.label("served-stall");
    }
    if obs.log.iter().any(|r| r.status >= 500) {
        o.label("served-5xx");
    }
    if obs.log.iter().any(|r| r.status == 206) {
        o.label("resumed-with-206");
    }
    if obs.log.iter().skip(1).any(|r| r.range_raw.is_none()) {
        o.label("retried-from-zero");
    }
    match &obs.end {
        End::Clean => o.label(if n > 1 { "outcome:complete-after-retry" } else { "outcome:complete" }),
        End::Error { kind: TransportErrorKind::FileNotFound, .. } => o.label("outcome:err-notfound"),
        End::Error { .. } if obs.delivered > 0 => o.label("outcome:err-after-partial-data"),
        End::Error { .. } => o.label("outcome:err-other"),
        End::NotPrefix(_) => o.label("outcome:wrong-bytes"),
        End::Runaway => o.label("outcome:runaway"),
        End::FetchErr { .. } => o.label("outcome:fetch-err"),
    }

    // ---- safety
    // (1) in order, no duplication, no gap
    if let End::NotPrefix(m) = &obs.end {
        o.fail(format!("delivered bytes are not a prefix of the resource: {m}. {}", ctxt(&obs)));
        return o;
    }
    // (2) end without error => complete
    if matches!(obs.end, End::Clean) && obs.delivered != size {
        o.fail(format!("stream ended without error after {} of {size} bytes. {}", obs.delivered, ctxt(&obs)));
        return o;
    }
    // (3) a request only follows delivered bytes as a range request for exactly the next byte, and
    //     a Range header only follows an announcement
    for (i, r) in obs.log.iter().enumerate() {
        let announced_before = obs.log[..i].iter().any(|p| p.announced);
        if let Some(raw) = &r.range_raw {
            if !announced_before {
                o.fail(format!("request #{i} carries 'Range: {raw}' although no earlier answer announced Accept-Ranges: bytes. {}", ctxt(&obs)));
                return o;
            }
            match r.range_start {
                Some(s) if s as usize == r.delivered_at => {}
                _ => {
                    o.fail(format!(
                        "request #{i} carries 'Range: {raw}' but the caller had received {} bytes: the range must be bytes={}-. {}",
                        r.delivered_at,
                        r.delivered_at,
                        ctxt(&obs)
                    ));
                    return o;
                }
            }
        } else if r.delivered_at > 0 {
            o.fail(format!(
                "request #{i} asks for the resource from the start after {} bytes were already delivered to the caller ({}). {}",
                r.delivered_at,
                if case.accept_ranges { "range support was announced" } else { "no range support: no request may follow delivered bytes" },
                ctxt(&obs)
            ));
            return o;
        }
    }
    // (4) client errors: the answer is final and classified
    for (i, r) in obs.log.iter().enumerate() {
        let want = match r.status {
            403 | 404 | 410 => TransportErrorKind::FileNotFound,
            400 | 416 => TransportErrorKind::Other,
            _ => continue,
        };
        if i + 1 != n {
            o.fail(format!("request #{i} was answered {} and the client made {} more request(s): client errors must not be retried. {}", r.status, n - i - 1, ctxt(&obs)));
            return o;
        }
        match &obs.end {
            End::Error { kind, .. } if *kind == want => {}
            End::Runaway => {}
            other => {
                o.fail(format!("request #{i} (the last one) was answered {}: the stream must yield an error of kind {want:?}, got {other:?}. {}", r.status, ctxt(&obs)));
                return o;
            }
        }
        if i == 0 {
            o.label("first-answer-client-error");
        }
    }
    // (5) requests per fetch <= tries
    if matches!(obs.end, End::Runaway) || n > tries + 1 {
        o.fail(format!("{n} requests (or more: stopped there) for one fetch with tries={tries}. {}", ctxt(&obs)));
        return o;
    }
    if n == tries + 1 {
        if known {
            o.known_hits += 1;
            o.label("known:tries-plus-one-requests");
        } else {
            o.fail(format!("{n} requests for one fetch with tries={tries}: the number of requests exceeds the configured number of tries [{KF_TRIES_PLUS_ONE}]. {}", ctxt(&obs)));
            return o;
        }
    }
    if let End::FetchErr { kind, text } = &obs.end {
        // fetch() itself failing is an error outcome like any other; with a script that must
        // succeed the liveness rule below reports it
        o.label(format!("fetch-err:{kind:?}"));
        let _ = text;
    }

    // ---- liveness (timing-free scripts only)
    if !has_stall {
        let f = (0..=tries).take_while(|i| matches!(effective(&case.script, *i), Action::Err500 | Action::Err503)).count();
        if f < tries && effective(&case.script, f) == Action::Ok200Full {
            o.label("must-succeed");
            if f > 0 {
                o.label("must-succeed-after-5xx");
            }
            if !matches!(obs.end, End::Clean) {
                o.fail(format!(
                    "{f} retryable failure(s) (5xx) before a complete 200 with tries={tries}: the fetch must succeed, but the stream ended with {:?}. {}",
                    obs.end,
                    ctxt(&obs)
                ));
                return o;
            }
        }
    }
    o
}

pub fn prop_with(case: &Case, known: bool) -> Outcome {
    let o = eval(case, known, 1);
    if !o.failed() {
        return o;
    }
    // confirm with a ten times longer client timeout: a defect of the retry logic does not depend
    // on the timeout value, a spurious time-out of a prompt answer on a loaded machine does
    let mut o2 = eval(case, known, 10);
    if !o2.failed() {
        o2.inconclusive += 1;
        o2.label("inconclusive:failure-not-reproduced-with-10x-client-timeout");
    }
    o2
}

// ------------------------------------------------------------------------------------------------
// generators

fn action() -> impl Strategy<Value = Action> {
    let at = prop_oneof![
        2 => 0u16..4,
        1 => 4u16..256,
        4 => 256u16..=65535,
        2 => Just(32768u16),
        1 => Just(65535u16),
    ];
    // transient faults dominate: a script is interesting as long as the client keeps going
    prop_oneof![
        3 => Just(Action::Ok200Full),
        12 => at.prop_map(|at| Action::Ok200StallAfter { at }),
        4 => Just(Action::Err500),
        4 => Just(Action::Err503),
        1 => Just(Action::Err403),
        1 => Just(Action::Err404),
        1 => Just(Action::Err410),
        1 => Just(Action::Err400),
        1 => Just(Action::Err416),
    ]
}

fn size() -> impl Strategy<Value = u32> {
    prop_oneof![
        1 => Just(0u32),
        1 => Just(1u32),
        2 => Just(1024u32),
        2 => Just(64 * 1024u32),
        2 => Just(256 * 1024u32),
        2 => 2u32..4096,
        3 => 0u32..=256 * 1024,
    ]
}

fn script() -> impl Strategy<Value = Vec<Action>> {
    let fivexx = prop_oneof![Just(Action::Err500), Just(Action::Err503)];
    prop_oneof![
        6 => prop::collection::vec(action(), 0..=6),
        // transient 5xx answers, then a healthy server (the liveness clause lives here)
        1 => prop::collection::vec(fivexx, 1..=5).prop_map(|mut v| {
            v.push(Action::Ok200Full);
            v
        }),
    ]
}

fn case_strategy() -> impl Strategy<Value = Case> {
    (size(), any::<u32>(), 1u8..=4, any::<bool>(), script()).prop_map(|(size, content_seed, tries, accept_ranges, mut script)| {
        script.truncate(tries as usize + 2);
        Case { size, content_seed, tries, accept_ranges, script }
    })
}

const ENUM_SIZE: u32 = 40_001;

fn enumerate(max_len: usize) -> Vec<Case> {
    let mut scripts: Vec<Vec<Action>> = vec![vec![]];
    let mut layer: Vec<Vec<Action>> = vec![vec![]];
    for _ in 0..max_len {
        let mut next = Vec::new();
        for s in &layer {
            for a in ACTIONS {
                let mut t = s.clone();
                t.push(a);
                next.push(t);
            }
        }
        scripts.extend(next.iter().cloned());
        layer = next;
    }
    let mut v = Vec::new();
    for tries in [1u8, 2] {
        for accept_ranges in [false, true] {
            for s in &scripts {
                v.push(Case { size: ENUM_SIZE, content_seed: 18, tries, accept_ranges, script: s.clone() });
            }
        }
    }
    v
}

pub fn check(ctx: &Ctx) -> Vec<PartReport> {
    let known = ctx.known.is_known("C18", KF_TRIES_PLUS_ONE);
    let mut out = Vec::new();
    let max_len = ctx.tier.pick(2usize, 3usize);
    let cases = enumerate(max_len);
    let rule_enum = format!(
        "EXHAUSTIVE: every script of length <= {max_len} over the 9 actions {{200 full, 200 stalled after half the body, 500, 503, 403, 404, 410, 400, 416}} x tries in {{1,2}} x server with / without Accept-Ranges, one resource of {ENUM_SIZE} bytes ({} fetches against the scripted server). Oracle: safety always, liveness for scripts without a stall. Non-trivial: at least one answer actually served was a failure status or a stalled body; distinct = (tries, range mode, size class, script with stall position class)",
        cases.len()
    );
    out.push(run_part(
        ctx,
        PartSpec {
            name: "scripts-exhaustive",
            rule: &rule_enum,
            mode: Mode::Enumerate { cases, complete: true },
            prop: Box::new(move |c: &Case| prop_with(c, known)),
            require: vec![],
        },
    ));
    let n = ctx.cases(3_000, 60_000);
    let nn = n as u64;
    out.push(run_part(
        ctx,
        PartSpec {
            name: "scripts-random",
            rule: "random: resource size from {0, 1, 1 KiB, 64 KiB, 256 KiB} or random up to 256 KiB, content a function of (size, seed), tries 1..4, server with / without Accept-Ranges, script of length 0..tries+2 over the 9 actions with the stall position anywhere in the body (0, a few bytes, any fraction). Same oracle. Non-trivial and distinct as in the exhaustive part",
            mode: Mode::Random { cases: n, strategy: Box::new(|| bx(case_strategy())) },
            prop: Box::new(move |c: &Case| prop_with(c, known)),
            require: vec![
                ("has-stall", nn / 4),
                ("no-stall", nn / 5),
                ("ranges", nn / 4),
                ("no-ranges", nn / 4),
                ("served-stall", nn / 6),
                ("served-5xx", nn / 6),
                ("resumed-with-206", nn / 25),
                ("retried-from-zero", nn / 8),
                ("outcome:complete-after-retry", nn / 15),
                ("outcome:err-notfound", nn / 25),
                ("outcome:err-after-partial-data", nn / 10),
                ("first-answer-client-error", nn / 20),
                ("must-succeed-after-5xx", nn / 60),
                ("tries:4", nn / 8),
            ],
        },
    ));
    out
}

pub fn replay(ctx: &Ctx, _part: &str, case: &Value) -> Outcome {
    let known = ctx.known.is_known("C18", KF_TRIES_PLUS_ONE);
    crate::engine::replay_case::<Case>(case, |c| prop_with(c, known))
}

/// Directed probe for the listed finding: a server that always answers 503, tries 1..4.
pub fn probes(_ctx: &Ctx) -> Vec<super::Probe> {
    let mut seen = Vec::new();
    let mut all = true;
    let mut detail = String::new();
    for tries in 1u8..=4 {
        let case = Case { size: 1024, content_seed: 18, tries, accept_ranges: false, script: vec![Action::Err503] };
        let o = prop_with(&case, false);
        let hit = o.fail.as_deref().map_or(false, |m| m.contains(KF_TRIES_PLUS_ONE));
        let reqs = o.labels.iter().find(|l| l.starts_with("requests:")).cloned().unwrap_or_default();
        seen.push(format!("tries={tries} -> {reqs}"));
        if hit {
            if detail.is_empty() {
                detail = o.fail.clone().unwrap_or_default();
            }
        } else {
            all = false;
        }
    }
    vec![super::Probe {
        key: KF_TRIES_PLUS_ONE.into(),
        what: "RetryStream::may_retry computes the tries left before counting the try that just failed: a fetch configured with tries = n makes n+1 requests against a server that keeps answering 5xx".into(),
        reproduced: all,
        detail: format!("always-503 server: {}. {}", seen.join(", "), if detail.is_empty() { "not reproduced".to_string() } else { detail }),
    }]
}
