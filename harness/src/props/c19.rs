//! C19 — a cached (cloned) repository is a faithful, loadable copy.

use crate::cjson::sha256_hex;
use crate::engine::{bx, pick_idx, run_part, Ctx, Mode, Outcome, PartReport, PartSpec};
use crate::forge::{self, DelegNode, LoadOpts, PathSpec, RootSpec, Simple};
use crate::transport::{MemTransport, Resp};
use proptest::prelude::*;
use serde::{Deserialize, Serialize};
use serde_json::Value;
use std::collections::BTreeMap;
use std::path::Path;
use tough::{IntoVec, TargetName};

pub const KF_NO_FLUSH: &str = "cache-metadata-not-flushed";

pub fn info() -> super::Info {
    super::Info {
        level: "exploration",
        assumptions: vec![
            "source repositories are forged (root chains of 1..3 versions with and without online-key rotation, delegated roles with odd names at depth <=2, targets with sub-directories and resolvable names) and served through the scripted transport; target names that the url crate rewrites are left out (known finding recorded under C10)",
            "with the root chain cached the copy is loaded with the originally shipped root; without it, with the root the source client ended up trusting",
        ],
    }
}

#[derive(Clone, Copy, Debug, Serialize, Deserialize, PartialEq, Eq)]
pub enum Subset {
    All,
    Some(u16),
    Empty,
    Unknown,
}

#[derive(Clone, Copy, Debug, Serialize, Deserialize, PartialEq, Eq)]
pub enum Bad {
    None,
    Corrupt(u16),
    Oversize(u16),
    Missing(u16),
}

#[derive(Clone, Debug, Serialize, Deserialize, PartialEq, Eq)]
pub struct Case {
    pub consistent: bool,
    pub roots: u8,
    pub rotate_online: bool,
    pub targets: Vec<(u8, u16)>,
    /// delegated roles: (name pick, nested under the previous one, targets)
    pub roles: Vec<(u8, bool, Vec<(u8, u16)>)>,
    pub subset: Subset,
    pub root_chain: bool,
    pub bad: Bad,
    /// drive the copy through the `tuftool clone` binary (source served from disk) instead of the library
    #[serde(default)]
    pub via_cli: bool,
    /// the two output directories already hold stale files under the names the copy will use
    #[serde(default)]
    pub stale: bool,
    /// the first delegated role also lists the first top-level target's name, with other content:
    /// an entry that no lookup may ever serve (the top-level entry comes first in pre-order)
    #[serde(default)]
    pub shadow: bool,
}

const NAMES: [&str; 8] = ["a.txt", "b.bin", "dir/c.txt", "deep/er/d.dat", "x/../resolved.txt", "dots..name", "tilde~1", "plus+sign"];
const ROLE_NAMES: [&str; 8] = ["plain", "with space", "a/b", "../up", "dot.json", "%2F", "\u{e9}t\u{e9}", "q?#"];

fn resolve(n: &str) -> String {
    super::c07::resolve(n)
}

struct Source {
    built: forge::Built,
    /// raw name -> content, for every listed target
    all_targets: BTreeMap<String, Vec<u8>>,
    final_root: u64,
    shadowed: bool,
}

fn source(case: &Case) -> Source {
    let mut s = Simple::basic(case.consistent);
    let n = case.roots.clamp(1, 3) as u64;
    s.roots = (1..=n)
        .map(|v| {
            let mut r = RootSpec::basic(v, case.consistent);
            if case.rotate_online && v >= 2 {
                r.timestamp = forge::RoleKeys::one(8);
                r.snapshot = forge::RoleKeys::one(9);
                r.targets = forge::RoleKeys::one(10);
            }
            r
        })
        .collect();
    let mut all = BTreeMap::new();
    let mut mk = |prefix: &str, v: &[(u8, u16)], all: &mut BTreeMap<String, Vec<u8>>| -> Vec<(String, Vec<u8>)> {
        let mut out: Vec<(String, Vec<u8>)> = Vec::new();
        for (i, (n, size)) in v.iter().enumerate() {
            let name = format!("{prefix}{}", NAMES[*n as usize % NAMES.len()]);
            if all.contains_key(&name) || all.keys().any(|k| resolve(k) == resolve(&name)) {
                continue;
            }
            let c = super::edit::content(*size % 5000, (i + prefix.len()) as u8);
            all.insert(name.clone(), c.clone());
            out.push((name, c));
        }
        out
    };
    s.targets = mk("", &case.targets, &mut all);
    let mut nodes: Vec<DelegNode> = Vec::new();
    let mut used: Vec<&str> = Vec::new();
    for (i, (name, nested, tg)) in case.roles.iter().take(3).enumerate() {
        let rn = ROLE_NAMES[*name as usize % ROLE_NAMES.len()];
        if used.contains(&rn) {
            continue;
        }
        used.push(rn);
        let nest = *nested && !nodes.is_empty();
        let prefix = if nest { format!("r{}/r{i}/", i - 1) } else { format!("r{i}/") };
        let mut d = DelegNode::new(rn, 4 + i, PathSpec::Paths(vec![format!("{prefix}*")]));
        d.targets = mk(&prefix, tg, &mut all);
        if nest {
            // the parent's prefix must cover it: parent is the last top-level node, with prefix r{i-1}/
            let last = nodes.last_mut().unwrap();
            if last.paths == PathSpec::Paths(vec![format!("r{}/*", i - 1)]) {
                last.children.push(d);
                continue;
            }
        }
        let mut d = d;
        d.paths = PathSpec::Paths(vec![format!("r{i}/*")]);
        // re-prefix its targets if it was meant to be nested but could not be
        if nest {
            for (n, _) in &mut d.targets {
                *n = n.replacen(&format!("r{}/", i - 1), "", 1);
            }
        }
        nodes.push(d);
    }
    // recompute `all` from the final tree (names may have been re-prefixed)
    let mut all2 = BTreeMap::new();
    for (n, c) in &s.targets {
        all2.insert(n.clone(), c.clone());
    }
    fn collect(nodes: &[DelegNode], all: &mut BTreeMap<String, Vec<u8>>) {
        for n in nodes {
            for (k, c) in &n.targets {
                all.insert(k.clone(), c.clone());
            }
            collect(&n.children, all);
        }
    }
    collect(&nodes, &mut all2);
    let shadow: Option<(String, String, Vec<u8>)> = match (case.shadow, s.targets.first(), nodes.first()) {
        (true, Some((tname, tcontent)), Some(node)) => {
            let mut other = tcontent.clone();
            other.extend_from_slice(b" -- listed by a role that was never delegated this name");
            Some((node.name.clone(), tname.clone(), other))
        }
        _ => None,
    };
    s.delegs = nodes;
    let mut built = match &shadow {
        None => s.build(),
        Some((role, tname, other)) => s.build_full(
            &|r, signed| {
                if r == role {
                    signed["targets"][tname.as_str()] = forge::target_entry(other);
                }
            },
            &|_, _, _| None,
        ),
    };
    if let Some((_, tname, other)) = &shadow {
        // under consistent snapshots the shadowed content is available under its own digest-prefixed
        // name, so that a client that picks the wrong entry can actually fetch it
        if case.consistent {
            built.target_files.insert(format!("{}.{}", sha256_hex(other), resolve(tname)), other.clone());
        }
    }
    Source { built, all_targets: all2, final_root: n, shadowed: shadow.is_some() }
}

fn snapshot_tree(root: &Path) -> BTreeMap<String, Vec<u8>> {
    super::edit::list_files(root)
}

pub fn prop_with(case: &Case, known_flush: bool) -> Outcome {
    let mut o = Outcome::new();
    crate::rt::set_now(crate::rt::t0());
    o.shape = format!("{:?}", case);
    let src = source(case);
    let mem = MemTransport::new();
    src.built.install(&mem);
    let names: Vec<String> = src.all_targets.keys().cloned().collect();
    // the requested subset
    let requested: Option<Vec<String>> = match case.subset {
        Subset::All => None,
        Subset::Empty => Some(vec![]),
        Subset::Unknown => Some(vec!["no/such/target".to_string()]),
        Subset::Some(mask) => Some(names.iter().enumerate().filter(|(i, _)| mask & (1 << (i % 16)) != 0).map(|(_, n)| n.clone()).collect()),
    };
    let wanted: Vec<String> = match &requested {
        None => names.clone(),
        Some(v) => v.iter().filter(|n| src.all_targets.contains_key(*n)).cloned().collect(),
    };
    // damage one wanted source target
    let mut damaged: Option<(String, Vec<u8>)> = None;
    let victim = |k: u16| if wanted.is_empty() { None } else { Some(wanted[pick_idx(k, wanted.len())].clone()) };
    let file_of = |name: &str| -> String {
        let c = &src.all_targets[name];
        if case.consistent { format!("{}.{}", sha256_hex(c), resolve(name)) } else { resolve(name) }
    };
    match case.bad {
        Bad::Corrupt(k) => {
            if let Some(v) = victim(k) {
                let mut c = src.all_targets[&v].clone();
                if c.is_empty() {
                    c.push(1);
                } else {
                    let l = c.len();
                    c[l / 2] ^= 0x40;
                }
                mem.set_target(&file_of(&v), Resp::body(c.clone()));
                damaged = Some((v, c));
            }
        }
        Bad::Oversize(k) => {
            if let Some(v) = victim(k) {
                let mut c = src.all_targets[&v].clone();
                c.extend_from_slice(b"trailing garbage");
                mem.set_target(&file_of(&v), Resp::body(c.clone()));
                damaged = Some((v, c));
            }
        }
        Bad::Missing(k) => {
            if let Some(v) = victim(k) {
                mem.set_target(&file_of(&v), Resp::NotFound);
                damaged = Some((v, vec![]));
            }
        }
        Bad::None => {}
    }
    let repo = match forge::load(&mem, &src.built.shipped(1), &LoadOpts::default()) {
        Ok(r) => r,
        Err(e) => {
            // a generator problem, not a verdict about caching
            o.inconclusive += 1;
            o.label(format!("source-does-not-load: {:?}", forge::classify(&e)));
            return o;
        }
    };
    let sandbox = tempfile::tempdir().unwrap();
    let sb = sandbox.path();
    let meta_out = sb.join("cache").join("metadata");
    let targets_out = sb.join("cache").join("targets");
    std::fs::create_dir_all(sb.join("other")).unwrap();
    std::fs::write(sb.join("other").join("bystander"), b"bystander").unwrap();
    // `tuftool clone` always caches the root chain and treats an empty name list as "all"
    let via_cli = case.via_cli && requested.as_ref().map_or(true, |v| !v.is_empty());
    let root_chain = case.root_chain || via_cli;
    if case.stale {
        // an earlier, outdated copy lies in the two directories: same names, other bytes (longer, shorter, equally long)
        o.label("stale-copy-present");
        std::fs::create_dir_all(&meta_out).unwrap();
        std::fs::create_dir_all(&targets_out).unwrap();
        let mut i = 0usize;
        let mut stale_bytes = |orig: &[u8]| -> Vec<u8> {
            i += 1;
            let mut b = orig.to_vec();
            if i % 3 == 0 && b.len() > 4 {
                b.truncate(b.len() / 2);
                b[0] ^= 0x20;
            } else if i % 3 == 1 && !b.is_empty() {
                // same length, other bytes
                let l = b.len();
                b[l / 2] ^= 0x04;
                b[l - 1] ^= 0x01;
            } else {
                b.extend_from_slice(b"\n{\"stale\": \"left over from an earlier copy\"}\n");
            }
            b
        };
        for (f, b) in &src.built.meta {
            let is_root = f.ends_with("root.json");
            let versioned_root = is_root && f != "root.json";
            if (!is_root) || (versioned_root && root_chain) {
                std::fs::write(meta_out.join(f), stale_bytes(b)).unwrap();
            }
        }
        for n in &wanted {
            let pth = targets_out.join(file_of(n));
            std::fs::create_dir_all(pth.parent().unwrap()).unwrap();
            std::fs::write(&pth, stale_bytes(&src.all_targets[n])).unwrap();
        }
    }
    let before = snapshot_tree(sb);
    let res: Result<(), String> = if via_cli {
        o.label("via:tuftool-clone");
        (|| -> Result<(), String> {
            let bin = super::c20::tuftool()?;
            // the same source, on disk
            let srcdir = sb.join("source");
            let sm = srcdir.join("metadata");
            let st = srcdir.join("targets");
            std::fs::create_dir_all(&sm).unwrap();
            std::fs::create_dir_all(&st).unwrap();
            for (f, b) in &src.built.meta {
                std::fs::write(sm.join(f), b).unwrap();
            }
            for (f, b) in &src.built.target_files {
                let pth = st.join(f);
                std::fs::create_dir_all(pth.parent().unwrap()).unwrap();
                std::fs::write(pth, b).unwrap();
            }
            if let Some((v, bytes)) = &damaged {
                let pth = st.join(file_of(v));
                if matches!(case.bad, Bad::Missing(_)) {
                    let _ = std::fs::remove_file(&pth);
                } else {
                    std::fs::write(&pth, bytes).unwrap();
                }
            }
            let rootf = sb.join("source").join("shipped-root.json");
            std::fs::write(&rootf, src.built.shipped(1)).unwrap();
            let mut cmd = std::process::Command::new(bin);
            cmd.arg("clone")
                .arg("--root").arg(&rootf)
                .arg("--metadata-url").arg(url::Url::from_directory_path(&sm).unwrap().as_str())
                .arg("--targets-url").arg(url::Url::from_directory_path(&st).unwrap().as_str())
                .arg("--metadata-dir").arg(&meta_out)
                .arg("--targets-dir").arg(&targets_out);
            if let Some(v) = &requested {
                for n in v {
                    cmd.arg("-n").arg(n);
                }
            }
            cmd.env("RUST_BACKTRACE", "0");
            let outp = cmd.output().map_err(|e| format!("cannot run tuftool: {e}"))?;
            if outp.status.success() {
                Ok(())
            } else {
                Err(format!("tuftool clone exited {:?}: {}", outp.status.code(), String::from_utf8_lossy(&outp.stderr).lines().take(4).collect::<Vec<_>>().join(" | ")))
            }
        })()
    } else {
        crate::rt::block_on(async {
            match &requested {
                None => repo.cache(&meta_out, &targets_out, None::<&[&str]>, root_chain).await,
                Some(v) => repo.cache(&meta_out, &targets_out, Some(v.as_slice()), root_chain).await,
            }
        })
        .map_err(|e| e.to_string())
    };
    // the source directory of the CLI variant is not part of the sandbox comparison
    let _ = std::fs::remove_dir_all(sb.join("source"));
    // what the statement is about is what a client finds right after `cache` returned
    let after = snapshot_tree(sb);
    o.label(format!("subset:{}", match case.subset { Subset::All => "all", Subset::Some(_) => "some", Subset::Empty => "empty", Subset::Unknown => "unknown" }));
    o.label(format!("bad:{}", match case.bad { Bad::None => "none", Bad::Corrupt(_) => "corrupt", Bad::Oversize(_) => "oversize", Bad::Missing(_) => "missing" }));
    if src.final_root > 1 {
        o.label("root-chain-in-source");
    }
    if src.shadowed {
        o.label("shadowed-entry");
    }
    if !src.built.docs.keys().all(|k| ["timestamp", "snapshot", "targets"].contains(&k.as_str()) || k.starts_with("root:")) {
        o.label("has-delegated-roles");
    }
    o.nontrivial = damaged.is_some() || src.final_root > 1 || !matches!(case.subset, Subset::All) || !case.roles.is_empty();
    // nothing outside the two directories
    for (f, b) in &after {
        if f.starts_with("cache/metadata/") || f.starts_with("cache/targets/") {
            continue;
        }
        if before.get(f) != Some(b) {
            o.fail(format!("caching wrote outside its two directories: {f}"));
            return o;
        }
    }
    for f in before.keys() {
        if !after.contains_key(f) {
            o.fail(format!("caching removed {f}"));
            return o;
        }
    }
    // never a target that failed verification
    if let Some((v, bytes)) = &damaged {
        let rel = format!("cache/targets/{}", file_of(v));
        if let Some(b) = after.get(&rel) {
            if b != &src.all_targets[v] && before.get(&rel) != Some(b) {
                o.fail(format!("the source served damaged content for {v:?}; the cache holds {} bytes of it under the target's final name ({} signed)", b.len(), src.all_targets[v].len()));
                return o;
            }
        }
        let _ = bytes;
        if res.is_ok() {
            o.fail(format!("the source's copy of {v:?} does not verify (or is missing), yet caching it reported success"));
            return o;
        }
        o.label("damaged-source-refused");
        return o;
    }
    match (&res, case.subset) {
        (Err(e), Subset::Unknown) => {
            o.label("unknown-target-refused");
            let _ = e;
            return o;
        }
        (Err(e), _) => {
            o.fail(format!("caching a healthy repository failed: {e}"));
            return o;
        }
        (Ok(()), _) => {}
    }
    o.label("cached");
    // every metadata file must be complete the moment cache() has returned
    for (f, b) in &after {
        if let Some(name) = f.strip_prefix("cache/metadata/") {
            if let Some(orig) = src.built.meta.get(name) {
                if orig != b {
                    let msg = format!("right after cache() returned Ok, {f} holds {} bytes that differ from the source's {} bytes [{KF_NO_FLUSH}]", b.len(), orig.len());
                    if known_flush {
                        o.known_hits += 1;
                        o.label("known:not-flushed");
                        return o;
                    }
                    o.fail(msg);
                    return o;
                }
            }
        }
    }
    // root chain
    if root_chain {
        for v in 1..=src.final_root {
            let rel = format!("cache/metadata/{v}.root.json");
            match after.get(&rel) {
                Some(b) if *b == src.built.root_bytes[&v] => {}
                Some(_) => {
                    o.fail(format!("{rel} differs from the source's {v}.root.json"));
                    return o;
                }
                None => {
                    o.fail(format!("root chain requested but {rel} is missing (trusted root is v{})", src.final_root));
                    return o;
                }
            }
        }
    }
    // load the copy
    let root_for_copy = if root_chain { src.built.shipped(1) } else { src.built.root_bytes[&src.final_root].clone() };
    let copy = crate::rt::block_on(
        tough::RepositoryLoader::new(&root_for_copy, url::Url::from_directory_path(&meta_out).unwrap(), url::Url::from_directory_path(&targets_out).unwrap())
            .transport(tough::FilesystemTransport)
            .load(),
    );
    let copy = match copy {
        Ok(c) => c,
        Err(e) => {
            // were the files complete when cache() returned?
            let incomplete: Vec<String> = after
                .iter()
                .filter(|(f, b)| f.starts_with("cache/metadata/") && src.built.meta.get(f.trim_start_matches("cache/metadata/")).map_or(false, |orig| orig != *b))
                .map(|(f, b)| format!("{f} ({} bytes)", b.len()))
                .collect();
            if !incomplete.is_empty() {
                if known_flush {
                    o.known_hits += 1;
                    o.label("known:not-flushed");
                    return o;
                }
                o.fail(format!("right after cache() returned Ok the copy does not load ({e}): metadata files are incomplete on disk: {incomplete:?} [{KF_NO_FLUSH}]"));
                return o;
            }
            o.fail(format!("the cached copy does not load: {e}"));
            return o;
        }
    };
    let v = |r: &tough::Repository| (r.root().signed.version.get(), r.timestamp().signed.version.get(), r.snapshot().signed.version.get(), r.targets().signed.version.get());
    if v(&copy) != v(&repo) && root_chain {
        o.fail(format!("role versions of the copy {:?} differ from the source {:?}", v(&copy), v(&repo)));
        return o;
    }
    if v(&copy).1 != v(&repo).1 || v(&copy).2 != v(&repo).2 || v(&copy).3 != v(&repo).3 {
        o.fail(format!("role versions of the copy {:?} differ from the source {:?}", v(&copy), v(&repo)));
        return o;
    }
    let mut sr: Vec<String> = repo.targets().signed.role_names().into_iter().cloned().collect();
    let mut cr: Vec<String> = copy.targets().signed.role_names().into_iter().cloned().collect();
    sr.sort();
    cr.sort();
    if sr != cr {
        o.fail(format!("delegated roles of the copy {cr:?} differ from the source {sr:?}"));
        return o;
    }
    // every requested target reads back byte-identical from the copy
    for name in &wanted {
        let tn = TargetName::new(name.clone()).unwrap();
        let got: Result<Option<Vec<u8>>, String> = crate::rt::block_on(async {
            match copy.read_target(&tn).await {
                Ok(Some(s)) => s.into_vec().await.map(Some).map_err(|e| e.to_string()),
                Ok(None) => Ok(None),
                Err(e) => Err(e.to_string()),
            }
        });
        match got {
            Ok(Some(b)) if b == src.all_targets[name] => {}
            other => {
                o.fail(format!("requested target {name:?} does not read back from the copy: {:?}", other.map(|x| x.map(|b| b.len()))));
                return o;
            }
        }
    }
    // nothing but requested targets in the targets directory
    let want_files: Vec<String> = wanted.iter().map(|n| format!("cache/targets/{}", file_of(n))).collect();
    for f in after.keys() {
        if f.starts_with("cache/targets/") && !want_files.contains(f) {
            o.fail(format!("unrequested file {f} in the cached targets directory"));
            return o;
        }
    }
    o
}

fn case_strategy() -> impl Strategy<Value = Case> {
    (case_strategy_lib(), prop::bool::weighted(0.08), prop::bool::weighted(0.3), prop::bool::weighted(0.3)).prop_map(|(mut c, cli, stale, shadow)| {
        c.via_cli = cli;
        c.stale = stale;
        c.shadow = shadow;
        c
    })
}

fn case_strategy_lib() -> impl Strategy<Value = Case> {
    (
        any::<bool>(),
        1u8..=3,
        any::<bool>(),
        prop::collection::vec((0u8..8, 0u16..5000), 0..6),
        prop::collection::vec((0u8..8, any::<bool>(), prop::collection::vec((0u8..8, 0u16..5000), 0..3)), 0..4),
        prop_oneof![3 => Just(Subset::All), 3 => any::<u16>().prop_map(Subset::Some), 1 => Just(Subset::Empty), 1 => Just(Subset::Unknown)],
        any::<bool>(),
        prop_oneof![4 => Just(Bad::None), 1 => any::<u16>().prop_map(Bad::Corrupt), 1 => any::<u16>().prop_map(Bad::Oversize), 1 => any::<u16>().prop_map(Bad::Missing)],
    )
        .prop_map(|(consistent, roots, rotate_online, targets, roles, subset, root_chain, bad)| Case { consistent, roots, rotate_online, targets, roles, subset, root_chain, bad, via_cli: false, stale: false, shadow: false })
}

pub fn check(ctx: &Ctx) -> Vec<PartReport> {
    let known = ctx.known.is_known("C19", KF_NO_FLUSH);
    let n = ctx.cases(1_500, 20_000);
    vec![run_part(
        ctx,
        PartSpec {
            name: "caches",
            rule: "random forged source repositories (root chain of 1..3 versions with or without online-key rotation, 0..5 top-level targets incl. sub-directories and resolvable names, 0..3 delegated roles with odd names such as 'with space', 'a/b', '../up', 'dot.json', '%2F', accented, 'q?#', optionally nested), served through the scripted transport; subset of targets in {all, a random subset, none, an unknown name}; with/without root chain; optionally one requested source target corrupted, oversized or missing; in 30 % of the cases a delegated role additionally lists a top-level target's name with other content (an entry no lookup may serve); in 30 % of the cases the output directories already hold an outdated copy (same file names; longer, shorter or equally long other bytes). Oracle: files appear only inside the two directories; a damaged source target makes cache() fail and its bytes never appear under the target's final name; otherwise cache() succeeds, every root version 1..trusted is present and equal to the source when the chain was requested, the copy loads through FilesystemTransport immediately after cache() returned, with equal role versions and delegated roles, every requested target reads back byte-identical and nothing unrequested lies in the targets directory. Non-trivial: damaged source, root chain, subset other than all, or delegated roles; distinct = case",
            mode: Mode::Random { cases: n, strategy: Box::new(|| bx(case_strategy())) },
            prop: Box::new(move |c: &Case| prop_with(c, known)),
            require: vec![
                ("cached", n as u64 / 3),
                ("damaged-source-refused", n as u64 / 20),
                ("has-delegated-roles", n as u64 / 4),
                ("root-chain-in-source", n as u64 / 3),
                ("subset:some", n as u64 / 5),
                ("unknown-target-refused", n as u64 / 40),
                ("via:tuftool-clone", n as u64 / 30),
                ("stale-copy-present", n as u64 / 6),
                ("shadowed-entry", n as u64 / 12),
            ],
        },
    )]
}

pub fn replay(ctx: &Ctx, _part: &str, case: &Value) -> Outcome {
    let known = ctx.known.is_known("C19", KF_NO_FLUSH);
    crate::engine::replay_case::<Case>(case, |c| prop_with(c, known))
}
