//! C02 — root rotation follows an unbroken, doubly-signed, forward-only chain.
//!
//! Domain: chains of 0..4 hops with a rotation kind per hop for the root role and for the online
//! roles, at most one broken hop, any chain version shipped, optionally a shipped root that does
//! not self-verify, expired intermediate roots, online metadata signed by the keys of any epoch.
//! Oracle: a validity predicate derived from the statement (a small model of the walk): see
//! `model_walk`. Where the statement leaves room (a broken hop: fail or stop before it) both are
//! accepted; going past a broken hop never is.

use crate::engine::{bx, run_part, Ctx, Mode, Outcome, PartReport, PartSpec};
use crate::forge::{self, classify, ErrClass, LoadOpts, RoleKeys, RootSpec, Simple};
use crate::keys::{key, Alg, POOL_LEN};
use crate::transport::{MemTransport, Resp};
use chrono::Duration;
use proptest::prelude::*;
use serde::{Deserialize, Serialize};
use serde_json::{json, Value};
use std::collections::BTreeSet;

pub fn info() -> super::Info {
    super::Info {
        level: "exploration",
        assumptions: vec![
            "the three online roles share one key set per root version (the root role rotates independently)",
            "a root served as N+1.root.json whose version skips ahead is accepted by the statement ('its version is higher')",
        ],
    }
}

#[derive(Clone, Copy, Debug, Serialize, Deserialize, PartialEq, Eq)]
pub enum Rot {
    Same,
    Disjoint,
    Overlap,
    ThresholdUp,
    ThresholdDown,
    AlgChange,
}

#[derive(Clone, Copy, Debug, Serialize, Deserialize, PartialEq, Eq)]
pub enum Broken {
    OnlyOldKeys,
    OnlyNewKeys,
    BelowOldThreshold,
    BelowNewThreshold,
    VersionLower,
    VersionEqual,
    VersionSkip,
    Unparsable,
    /// the file N+1.root.json holds the document of version N+2
    WrongFileName,
}

#[derive(Clone, Debug, Serialize, Deserialize, PartialEq, Eq)]
pub struct Hop {
    pub root_rot: Rot,
    pub online_rot: Rot,
}

#[derive(Clone, Debug, Serialize, Deserialize, PartialEq, Eq)]
pub struct Case {
    pub consistent: bool,
    pub initial_root_keys: u8,
    pub initial_root_threshold: u8,
    pub hops: Vec<Hop>,
    /// which chain version is shipped (monotone map onto 0..=hops.len())
    pub shipped: u16,
    pub broken: Option<(u16, Broken)>,
    pub shipped_bad_self: bool,
    /// which epoch's online keys sign timestamp/snapshot/targets (monotone map; u16::MAX = last)
    pub online_epoch: u16,
    pub expired_intermediates: bool,
    /// before the cycle under test, run one cycle on the same datastore against the repository as
    /// it was when the root of `online_epoch` was the newest one (same timestamp / snapshot /
    /// targets files): whatever that cycle stored was verified under keys that may since have
    /// been revoked
    #[serde(default)]
    pub prior_cycle: bool,
}

struct Alloc {
    next: usize,
}
impl Alloc {
    fn fresh(&mut self, avoid: &BTreeSet<usize>, alg: Option<Alg>) -> usize {
        for pass in 0..2 {
            for off in 0..POOL_LEN {
                let i = (self.next + off) % POOL_LEN;
                if avoid.contains(&i) {
                    continue;
                }
                let a = key(i).alg;
                let ok = match (alg, pass) {
                    (Some(w), 0) => a == w,
                    (None, 0) => a == Alg::Ed25519,
                    _ => true,
                };
                if ok {
                    self.next = i + 1;
                    return i;
                }
            }
        }
        panic!("key pool exhausted");
    }
}

fn rotate(cur: &RoleKeys, rot: Rot, alloc: &mut Alloc, in_use: &BTreeSet<usize>) -> RoleKeys {
    let mut avoid = in_use.clone();
    avoid.extend(cur.keys.iter().copied());
    match rot {
        Rot::Same => cur.clone(),
        Rot::Disjoint => {
            let mut keys = Vec::new();
            for _ in 0..cur.keys.len() {
                let k = alloc.fresh(&avoid, None);
                avoid.insert(k);
                keys.push(k);
            }
            RoleKeys::new(keys, cur.threshold)
        }
        Rot::Overlap => {
            let mut keys = cur.keys.clone();
            if keys.len() > 1 {
                keys.remove(0);
            }
            let k = alloc.fresh(&avoid, None);
            keys.push(k);
            if keys.len() > 3 {
                keys.remove(0);
            }
            RoleKeys::new(keys.clone(), cur.threshold.min(keys.len() as u64))
        }
        Rot::ThresholdUp => {
            let mut keys = cur.keys.clone();
            let t = (cur.threshold + 1).min(3);
            while (keys.len() as u64) < t {
                let k = alloc.fresh(&avoid, None);
                avoid.insert(k);
                keys.push(k);
            }
            RoleKeys::new(keys, t)
        }
        Rot::ThresholdDown => RoleKeys::new(cur.keys.clone(), cur.threshold.saturating_sub(1).max(1)),
        Rot::AlgChange => {
            let cur_alg = key(cur.keys[0]).alg;
            let want = match cur_alg {
                Alg::Ed25519 => Alg::Ecdsa,
                Alg::Ecdsa => Alg::Rsa,
                Alg::Rsa => Alg::Ed25519,
            };
            let mut keys = Vec::new();
            for _ in 0..cur.keys.len().min(2) {
                let k = alloc.fresh(&avoid, Some(want));
                avoid.insert(k);
                keys.push(k);
            }
            RoleKeys::new(keys.clone(), cur.threshold.min(keys.len() as u64))
        }
    }
}

/// description of one served root document
#[derive(Clone, Debug)]
struct RootDoc {
    version_field: i64,
    root: RoleKeys,
    online: RoleKeys,
    signers: BTreeSet<usize>,
    parsable: bool,
    expired: bool,
}

fn meets(rk: &RoleKeys, signers: &BTreeSet<usize>) -> bool {
    rk.keys.iter().filter(|k| signers.contains(k)).collect::<BTreeSet<_>>().len() as u64 >= rk.threshold
}

pub struct Plan {
    /// epochs[i] = root version i+1 as the repository owner intended it
    epochs: Vec<(RoleKeys, RoleKeys)>,
    /// file `<n>.root.json` -> document served
    served: std::collections::BTreeMap<u64, RootDoc>,
    shipped_version: u64,
    shipped_doc: RootDoc,
    online_epoch: usize,
    /// version -> the document the repository owner intended (unbroken chain, unexpired or not as generated)
    intended: std::collections::BTreeMap<u64, RootDoc>,
}

pub fn plan(case: &Case) -> Plan {
    let mut alloc = Alloc { next: 0 };
    let n0 = case.initial_root_keys.clamp(1, 3) as usize;
    let mut in_use = BTreeSet::new();
    let mut rkeys = Vec::new();
    for _ in 0..n0 {
        let k = alloc.fresh(&in_use, None);
        in_use.insert(k);
        rkeys.push(k);
    }
    let root0 = RoleKeys::new(rkeys, (case.initial_root_threshold.clamp(1, 2) as u64).min(n0 as u64));
    let ok = alloc.fresh(&in_use, None);
    let online0 = RoleKeys::one(ok);
    let mut epochs = vec![(root0, online0)];
    for h in &case.hops {
        let (pr, po) = epochs.last().unwrap().clone();
        let mut in_use: BTreeSet<usize> = pr.keys.iter().chain(&po.keys).copied().collect();
        let nr = rotate(&pr, h.root_rot, &mut alloc, &in_use);
        in_use.extend(nr.keys.iter().copied());
        let no = rotate(&po, h.online_rot, &mut alloc, &in_use);
        epochs.push((nr, no));
    }
    let k = case.hops.len();
    let shipped_idx = crate::engine::pick_idx(case.shipped, k + 1);
    let online_epoch = if case.online_epoch == u16::MAX { k } else { crate::engine::pick_idx(case.online_epoch, k + 1) };

    // intended documents
    let mut docs: Vec<RootDoc> = Vec::new();
    for (i, (r, o)) in epochs.iter().enumerate() {
        let mut signers: BTreeSet<usize> = r.keys.iter().copied().collect();
        if i > 0 {
            signers.extend(epochs[i - 1].0.keys.iter().copied());
        }
        docs.push(RootDoc {
            version_field: i as i64 + 1,
            root: r.clone(),
            online: o.clone(),
            signers,
            parsable: true,
            expired: case.expired_intermediates && i < k,
        });
    }
    let mut served = std::collections::BTreeMap::new();
    for (i, d) in docs.iter().enumerate() {
        served.insert(i as u64 + 1, d.clone());
    }
    // break one hop: hop j produces file (j+2).root.json (document index j+1)
    if let Some((pos, kind)) = &case.broken {
        if k > 0 {
            let j = crate::engine::pick_idx(*pos, k); // hop index 0..k
            let file = j as u64 + 2;
            let old = &epochs[j].0;
            let new = &epochs[j + 1].0;
            let mut d = docs[j + 1].clone();
            let old_only: Vec<usize> = old.keys.iter().filter(|x| !new.keys.contains(x)).copied().collect();
            let new_only: Vec<usize> = new.keys.iter().filter(|x| !old.keys.contains(x)).copied().collect();
            match kind {
                Broken::OnlyOldKeys => d.signers = old.keys.iter().copied().collect(),
                Broken::OnlyNewKeys => d.signers = new.keys.iter().copied().collect(),
                Broken::BelowOldThreshold => {
                    let mut s: BTreeSet<usize> = new_only.iter().copied().collect();
                    // as many old keys as stay below the old threshold
                    for x in old.keys.iter().take(old.threshold as usize - 1) {
                        s.insert(*x);
                    }
                    d.signers = s;
                }
                Broken::BelowNewThreshold => {
                    let mut s: BTreeSet<usize> = old_only.iter().copied().collect();
                    for x in new.keys.iter().take(new.threshold as usize - 1) {
                        s.insert(*x);
                    }
                    d.signers = s;
                }
                Broken::VersionLower => d.version_field = j as i64, // trusted is j+1: lower (0 = unparsable)
                Broken::VersionEqual => d.version_field = j as i64 + 1,
                Broken::VersionSkip => d.version_field = j as i64 + 4,
                Broken::Unparsable => d.parsable = false,
                Broken::WrongFileName => {
                    if j + 2 < docs.len() {
                        d = docs[j + 2].clone();
                    } else {
                        // no later version exists: serve the previous version's document instead
                        d = docs[j].clone();
                    }
                }
            }
            served.insert(file, d);
        }
    }
    let mut shipped_doc = docs[shipped_idx].clone();
    if case.shipped_bad_self {
        // signed by one key too few of its own root role (and by nobody else)
        let r = &shipped_doc.root;
        shipped_doc.signers = r.keys.iter().take(r.threshold as usize - 1).copied().collect();
    }
    let intended = docs.iter().enumerate().map(|(i, d)| (i as u64 + 1, d.clone())).collect();
    Plan { epochs, served, shipped_version: shipped_idx as u64 + 1, shipped_doc, online_epoch, intended }
}

#[derive(Debug, Clone, PartialEq)]
pub enum Expect {
    /// must fail
    MustFail(&'static str),
    /// must succeed trusting exactly this root version
    MustOk(u64),
    /// a broken hop: fail, or succeed trusting exactly this version (stopping before it)
    FailOrStopAt(u64),
}

pub struct Model {
    pub expect: Expect,
    /// root files the client may request, in order (a prefix is allowed when it fails)
    pub requests: Vec<u64>,
    pub final_doc_version: u64,
}

pub fn model_walk(p: &Plan) -> Model {
    if !meets(&p.shipped_doc.root, &p.shipped_doc.signers) {
        return Model { expect: Expect::MustFail("shipped root does not verify under its own keys"), requests: vec![], final_doc_version: p.shipped_version };
    }
    let mut cur = p.shipped_doc.clone();
    let mut requests = Vec::new();
    let mut problem = false;
    loop {
        let want = cur.version_field as u64 + 1;
        requests.push(want);
        let Some(next) = p.served.get(&want) else { break };
        if !next.parsable || next.version_field < 1 {
            problem = true;
            break;
        }
        if !meets(&cur.root, &next.signers) || !meets(&next.root, &next.signers) {
            problem = true;
            break;
        }
        if next.version_field < cur.version_field {
            problem = true;
            break;
        }
        if next.version_field == cur.version_field {
            // equal version: tough stops silently; the statement ("its version is higher") allows
            // stopping here or failing
            problem = true;
            break;
        }
        cur = next.clone();
    }
    let v = cur.version_field as u64;
    let online_ok = meets(&cur.online, &p.epochs[p.online_epoch].1.keys.iter().copied().collect());
    let expect = if problem {
        if cur.expired || !online_ok {
            Expect::MustFail("broken hop, and the root before it is expired or does not authorize the online keys")
        } else {
            Expect::FailOrStopAt(v)
        }
    } else if cur.expired {
        Expect::MustFail("final root expired")
    } else if !online_ok {
        Expect::MustFail("online metadata signed by keys the final root does not authorize")
    } else {
        Expect::MustOk(v)
    };
    Model { expect, requests, final_doc_version: v }
}

fn root_spec(d: &RootDoc, consistent: bool) -> RootSpec {
    let exp = if d.expired { crate::rt::t0() - Duration::days(1) } else { crate::rt::t0() + Duration::days(365) };
    RootSpec {
        version: d.version_field.max(0) as u64,
        expires: exp,
        consistent,
        root: d.root.clone(),
        timestamp: d.online.clone(),
        snapshot: d.online.clone(),
        targets: d.online.clone(),
        extra: vec![],
    }
}

fn root_bytes(d: &RootDoc, consistent: bool) -> Vec<u8> {
    if !d.parsable {
        return b"{\"signed\": {\"_type\": \"root\", \"version\": ".to_vec();
    }
    let mut signed = forge::root_signed(&root_spec(d, consistent));
    signed["version"] = json!(d.version_field);
    let signers: Vec<usize> = d.signers.iter().copied().collect();
    forge::to_bytes(&forge::sign_with(&signed, &signers), forge::Style::Compact)
}

pub fn prop(case: &Case) -> Outcome {
    let mut o = Outcome::new();
    crate::rt::set_now(crate::rt::t0());
    let p = plan(case);
    let m = model_walk(&p);
    let k = case.hops.len();
    o.label(format!("hops:{k}"));
    if let Some((_, b)) = &case.broken {
        if k > 0 {
            o.label(format!("broken:{b:?}"));
        }
    }
    o.label(match &m.expect {
        Expect::MustFail(_) => "expect-fail",
        Expect::MustOk(_) => "expect-ok",
        Expect::FailOrStopAt(_) => "expect-fail-or-stop",
    });
    let key_change = case.hops.iter().any(|h| h.root_rot != Rot::Same || h.online_rot != Rot::Same);
    if key_change {
        o.label("key-change");
    }
    if p.online_epoch != k {
        o.label("online-non-final-epoch");
    }
    if p.shipped_version > 1 {
        o.label("shipped-later-version");
    }
    o.nontrivial = (k >= 1 && key_change) || (case.broken.is_some() && k > 0) || p.online_epoch != k || case.shipped_bad_self;
    o.shape = format!(
        "{:?}|{:?}|{}|{}|{}|{}",
        case.hops, case.broken.as_ref().map(|(x, b)| (crate::engine::pick_idx(*x, k.max(1)), *b)), p.shipped_version, p.online_epoch, case.shipped_bad_self, case.expired_intermediates
    );

    // online metadata from the forge, signed by the chosen epoch's online keys
    let final_epoch_online = p.epochs[p.online_epoch].1.clone();
    let mut s = Simple::basic(case.consistent);
    let mut r = RootSpec::basic(1, case.consistent);
    r.timestamp = final_epoch_online.clone();
    r.snapshot = final_epoch_online.clone();
    r.targets = final_epoch_online.clone();
    s.roots = vec![r];
    s.targets = vec![("a.txt".into(), b"a".to_vec())];
    let built = s.build();
    let mem = MemTransport::new();
    for (f, b) in &built.meta {
        if !f.ends_with(".root.json") {
            mem.set_meta(f, Resp::body(b.clone()));
        }
    }
    for (file, d) in &p.served {
        mem.set_meta(&format!("{file}.root.json"), Resp::body(root_bytes(d, case.consistent)));
    }
    let shipped = root_bytes(&p.shipped_doc, case.consistent);
    let store = tempfile::tempdir().expect("tempdir");
    let opts = LoadOpts { datastore: Some(store.path().to_path_buf()), ..Default::default() };
    if case.prior_cycle {
        // the repository as a client saw it while root `online_epoch + 1` was the newest: only the
        // intended (unbroken) roots up to that version exist
        let mem0 = MemTransport::new();
        for (f, b) in &built.meta {
            if !f.ends_with(".root.json") {
                mem0.set_meta(f, Resp::body(b.clone()));
            }
        }
        let upto = p.online_epoch as u64 + 1;
        for (file, d) in &p.intended {
            if *file <= upto {
                mem0.set_meta(&format!("{file}.root.json"), Resp::body(root_bytes(d, case.consistent)));
            }
        }
        let start = p.shipped_version.min(upto);
        let r0 = forge::load(&mem0, &root_bytes(&p.intended[&start], case.consistent), &opts);
        if r0.is_ok() {
            o.label("prior-cycle-stored-state");
        }
    }
    let res = forge::load(&mem, &shipped, &opts);
    let reqs: Vec<u64> = mem
        .meta_requests()
        .iter()
        .filter_map(|f| f.strip_suffix(".root.json").and_then(|v| v.parse().ok()))
        .collect();
    match (&res, &m.expect) {
        (Ok(repo), Expect::MustOk(v)) | (Ok(repo), Expect::FailOrStopAt(v)) => {
            let got = repo.root().signed.version.get();
            if got != *v {
                o.fail(format!("trusted root v{got}, but the last root that passed the chain rules is v{v}"));
            } else if got < p.shipped_version {
                o.fail(format!("trusted root v{got} is lower than the shipped v{}", p.shipped_version));
            }
            if reqs != m.requests {
                o.fail(format!("root files requested {reqs:?}, the chain rules give {:?}", m.requests));
            }
        }
        (Ok(repo), Expect::MustFail(why)) => {
            o.fail(format!("load succeeded (root v{}) although: {why}", repo.root().signed.version));
        }
        (Err(e), Expect::MustOk(v)) => {
            o.fail(format!("clean chain up to v{v} with properly signed metadata was refused: {e}"));
        }
        (Err(e), Expect::MustFail(_)) | (Err(e), Expect::FailOrStopAt(_)) => {
            // requests must be a prefix of the model's
            if reqs.len() > m.requests.len() || reqs[..] != m.requests[..reqs.len()] {
                o.fail(format!("root files requested {reqs:?} is not a prefix of {:?} ({e})", m.requests));
            }
            if case.shipped_bad_self && !matches!(classify(e), ErrClass::VerifyTrusted) {
                o.fail(format!("shipped root fails its own threshold, expected that failure, got: {e}"));
            }
        }
    }
    o
}

fn rot() -> impl Strategy<Value = Rot> {
    prop::sample::select(vec![Rot::Same, Rot::Disjoint, Rot::Overlap, Rot::ThresholdUp, Rot::ThresholdDown, Rot::AlgChange])
}

fn broken() -> impl Strategy<Value = Broken> {
    prop::sample::select(vec![
        Broken::OnlyOldKeys,
        Broken::OnlyNewKeys,
        Broken::BelowOldThreshold,
        Broken::BelowNewThreshold,
        Broken::VersionLower,
        Broken::VersionEqual,
        Broken::VersionSkip,
        Broken::Unparsable,
        Broken::WrongFileName,
    ])
}

fn case_strategy() -> impl Strategy<Value = Case> {
    (
        any::<bool>(),
        1u8..=3,
        1u8..=2,
        prop::collection::vec((rot(), rot()).prop_map(|(a, b)| Hop { root_rot: a, online_rot: b }), 0..=4),
        prop_oneof![3 => Just(0u16), 2 => any::<u16>()],
        prop::option::weighted(0.5, (any::<u16>(), broken())),
        prop::bool::weighted(0.08),
        prop_oneof![2 => Just(u16::MAX), 1 => any::<u16>()],
        prop::bool::weighted(0.3),
        prop::bool::weighted(0.4),
    )
        .prop_map(|(consistent, n, t, hops, shipped, broken, bad, online_epoch, exp, prior_cycle)| Case {
            consistent,
            initial_root_keys: n,
            initial_root_threshold: t,
            hops,
            shipped,
            broken,
            shipped_bad_self: bad,
            online_epoch,
            expired_intermediates: exp,
            prior_cycle,
        })
}

fn grid() -> Vec<Case> {
    let rots = [Rot::Disjoint, Rot::Overlap, Rot::ThresholdUp];
    let kinds = [
        Broken::OnlyOldKeys,
        Broken::OnlyNewKeys,
        Broken::BelowOldThreshold,
        Broken::BelowNewThreshold,
        Broken::VersionLower,
        Broken::VersionEqual,
        Broken::VersionSkip,
        Broken::Unparsable,
        Broken::WrongFileName,
    ];
    let mut v = Vec::new();
    for k in 1..=3usize {
        for r in rots {
            for b in kinds {
                for pos in 0..k {
                    for (n, t) in [(1u8, 1u8), (2, 2)] {
                        v.push(Case {
                            consistent: (k + pos) % 2 == 0,
                            initial_root_keys: n,
                            initial_root_threshold: t,
                            hops: vec![Hop { root_rot: r, online_rot: Rot::Same }; k],
                            shipped: 0,
                            // pick_idx(x, k) == pos
                            broken: Some((((pos * 65536 + k - 1) / k) as u16, b)),
                            shipped_bad_self: false,
                            online_epoch: u16::MAX,
                            expired_intermediates: false,
                            prior_cycle: false,
                        });
                    }
                }
            }
        }
    }
    v
}

pub fn check(ctx: &Ctx) -> Vec<PartReport> {
    let mut out = Vec::new();
    out.push(run_part(
        ctx,
        PartSpec {
            name: "grid",
            rule: "EXHAUSTIVE over the grid: chain length 1..3 x root rotation kind in {disjoint, overlap, threshold-up} x broken kind (9) x position of the broken hop x initial root role (1 key/threshold 1, 2 keys/threshold 2), shipped root v1, online metadata signed by the last epoch. Oracle: model of the walk from the statement. Non-trivial: always (a key change and a broken hop); distinct = whole case",
            mode: Mode::Enumerate { cases: grid(), complete: true },
            prop: Box::new(prop),
            require: vec![],
        },
    ));
    let n = ctx.cases(40_000, 200_000);
    out.push(run_part(
        ctx,
        PartSpec {
            name: "chains",
            rule: "random chains of 0..4 hops, rotation kind per hop for the root role and (independently) the online roles from {same, disjoint, overlap, threshold up/down, algorithm change}; optional broken hop (kind x position); any chain version shipped; 8% shipped roots failing their own threshold; online metadata signed by the keys of any epoch; 30% with all intermediate roots expired. Oracle: model walk; observed: load result, trusted root version, sequence of N.root.json requests. Non-trivial: >=1 hop with a key change, or a broken hop, or online metadata from a non-final epoch, or a bad shipped root; distinct = (hops, broken hop, shipped version, epoch, flags)",
            mode: Mode::Random { cases: n, strategy: Box::new(|| bx(case_strategy())) },
            prop: Box::new(prop),
            require: vec![
                ("expect-ok", n as u64 / 10),
                ("expect-fail", n as u64 / 20),
                ("expect-fail-or-stop", n as u64 / 20),
                ("online-non-final-epoch", n as u64 / 30),
                ("prior-cycle-stored-state", n as u64 / 20),
                ("shipped-later-version", n as u64 / 20),
                ("hops:4", n as u64 / 20),
            ],
        },
    ));
    out
}

pub fn replay(_ctx: &Ctx, _part: &str, case: &Value) -> Outcome {
    crate::engine::replay_case::<Case>(case, prop)
}
