//! C06 — target bytes delivered to the caller are exactly the signed content.

use crate::cjson::sha256_hex;
use crate::engine::{bx, run_part, Ctx, Mode, Outcome, PartReport, PartSpec};
use crate::forge::{self, DelegNode, LoadOpts, PathSpec, Simple};
use crate::transport::{Chunking, MemTransport, Resp};
use futures::StreamExt;
use proptest::prelude::*;
use serde::{Deserialize, Serialize};
use serde_json::Value;
use std::sync::Arc;
use tough::TargetName;

pub fn info() -> super::Info {
    super::Info {
        level: "exploration",
        assumptions: vec![
            "the caller stops reading at the first error item (as save_target does)",
            "SHA-256 collisions are out of scope: 'other content' means other bytes",
        ],
    }
}

#[derive(Clone, Debug, Serialize, Deserialize, PartialEq, Eq)]
pub enum Corruption {
    None,
    BitFlip(u32),
    Truncate(u32),
    Extend(u16),
    /// the content of another signed target (same length / half length)
    Substitute(bool),
    Endless(u16),
    /// transport error after k chunks
    ErrorAt(u16),
}

#[derive(Clone, Debug, Serialize, Deserialize, PartialEq, Eq)]
pub enum Name {
    Plain,
    SubDir,
    Resolvable,
    /// a name no role lists
    Absent,
}

#[derive(Clone, Debug, Serialize, Deserialize, PartialEq, Eq)]
pub struct Case {
    pub consistent: bool,
    pub delegated: bool,
    pub len: u32,
    pub seed: u8,
    pub chunking: Chunking,
    pub corruption: Corruption,
    pub name: Name,
}

pub fn content(len: usize, seed: u8) -> Vec<u8> {
    // non-periodic pattern so that shifted or duplicated data is visible
    let mut v = Vec::with_capacity(len);
    let mut x: u32 = 0x9E37_79B9 ^ ((seed as u32) << 8) ^ (len as u32);
    for _ in 0..len {
        x ^= x << 13;
        x ^= x >> 17;
        x ^= x << 5;
        v.push((x >> 11) as u8);
    }
    v
}

pub fn prop(case: &Case) -> Outcome {
    let mut o = Outcome::new();
    crate::rt::set_now(crate::rt::t0());
    let len = case.len as usize;
    let data = content(len, case.seed);
    let other_same = content(len, case.seed.wrapping_add(1));
    let other_half = content(len / 2, case.seed.wrapping_add(2));
    let (raw_name, resolved) = match case.name {
        Name::Plain | Name::Absent => ("file.bin", "file.bin"),
        Name::SubDir => ("sub/dir/file.bin", "sub/dir/file.bin"),
        Name::Resolvable => ("x/../sub/./file.bin", "sub/file.bin"),
    };
    let listed: Vec<(String, Vec<u8>)> = vec![
        (raw_name.to_string(), data.clone()),
        ("other-same.bin".to_string(), other_same.clone()),
        ("other-half.bin".to_string(), other_half.clone()),
    ];
    let mut s = Simple::basic(case.consistent);
    if case.delegated {
        let mut d = DelegNode::new("d1", 4, PathSpec::Paths(vec!["*".into()]));
        d.targets = listed;
        s.delegs = vec![d];
    } else {
        s.targets = listed;
    }
    let built = s.build();
    let mem = MemTransport::new();
    built.install_meta(&mem);
    let digest = sha256_hex(&data);
    let file = if case.consistent { format!("{digest}.{resolved}") } else { resolved.to_string() };

    // what the server sends for the target
    let chunk_count = case.chunking.split(&data).len();
    let (resp, served_equals_signed): (Resp, bool) = match &case.corruption {
        Corruption::None => (Resp::Body(Arc::new(data.clone()), case.chunking.clone()), true),
        Corruption::BitFlip(p) if len > 0 => {
            let mut d = data.clone();
            let pos = *p as usize % (len * 8);
            d[pos / 8] ^= 1 << (pos % 8);
            (Resp::Body(Arc::new(d), case.chunking.clone()), false)
        }
        Corruption::Truncate(at) if len > 0 => {
            let at = *at as usize % len;
            (Resp::Body(Arc::new(data[..at].to_vec()), case.chunking.clone()), false)
        }
        Corruption::Extend(n) => {
            let mut d = data.clone();
            d.extend(std::iter::repeat(0xAB).take((*n as usize).max(1)));
            (Resp::Body(Arc::new(d), case.chunking.clone()), false)
        }
        Corruption::Substitute(same) => {
            let d = if *same { other_same.clone() } else { other_half.clone() };
            let eq = d == data;
            (Resp::Body(Arc::new(d), case.chunking.clone()), eq)
        }
        Corruption::Endless(sz) => (Resp::Endless((*sz as usize).max(1)), false),
        Corruption::ErrorAt(k) => {
            let k = *k as usize;
            (Resp::ErrorAfter(Arc::new(data.clone()), case.chunking.clone(), k), k > chunk_count)
        }
        _ => (Resp::Body(Arc::new(data.clone()), case.chunking.clone()), true),
    };
    mem.set_target(&file, resp);
    // decoys: the un-prefixed name in consistent mode and the prefixed one otherwise carry wrong bytes
    if case.consistent {
        mem.set_target(resolved, Resp::body(b"decoy".to_vec()));
    } else {
        mem.set_target(&format!("{digest}.{resolved}"), Resp::body(b"decoy".to_vec()));
    }

    let repo = match forge::load(&mem, &built.shipped(1), &LoadOpts::default()) {
        Ok(r) => r,
        Err(e) => {
            o.fail(format!("valid repository refused: {e}"));
            return o;
        }
    };
    mem.clear_log();
    let ask = match case.name {
        Name::Absent => "no/such/target.bin",
        _ => raw_name,
    };
    let name = TargetName::new(ask).unwrap();
    let (found, chunks, err): (bool, Vec<Vec<u8>>, Option<String>) = crate::rt::block_on(async {
        match repo.read_target(&name).await {
            Ok(None) => (false, vec![], None),
            Err(e) => (true, vec![], Some(format!("read_target failed: {e}"))),
            Ok(Some(mut stream)) => {
                let mut chunks = Vec::new();
                let mut err = None;
                while let Some(item) = stream.next().await {
                    match item {
                        Ok(b) => chunks.push(b.to_vec()),
                        Err(e) => {
                            err = Some(e.to_string());
                            break;
                        }
                    }
                }
                (true, chunks, err)
            }
        }
    });
    let reqs = mem.target_requests();
    o.label(format!("corruption:{}", match &case.corruption {
        Corruption::None => "none",
        Corruption::BitFlip(_) => "bitflip",
        Corruption::Truncate(_) => "truncate",
        Corruption::Extend(_) => "extend",
        Corruption::Substitute(_) => "substitute",
        Corruption::Endless(_) => "endless",
        Corruption::ErrorAt(_) => "transport-error",
    }));
    o.label(format!("name:{:?}", case.name));
    if chunk_count >= 2 {
        o.label("multi-chunk");
    }
    o.nontrivial = case.corruption != Corruption::None || chunk_count >= 2 || case.name == Name::Absent;
    o.shape = format!("{:?}", case);

    if case.name == Name::Absent {
        if found {
            o.fail("a name no role lists yielded a stream instead of 'not found'");
        }
        if !reqs.is_empty() {
            o.fail(format!("a name no role lists caused requests to the targets URL: {reqs:?}"));
        }
        return o;
    }
    if !found {
        o.fail(format!("listed target {ask:?} reported as not found"));
        return o;
    }
    let delivered: Vec<u8> = chunks.concat();
    if delivered.len() > len {
        o.fail(format!("{} bytes handed to the caller, signed length is {}", delivered.len(), len));
    }
    match &err {
        None => {
            if delivered != data {
                o.fail(format!(
                    "stream ended without error but the bytes are not the signed content (delivered {} bytes, sha256 {}, signed {} bytes, sha256 {digest})",
                    delivered.len(),
                    sha256_hex(&delivered),
                    len
                ));
            }
            if !served_equals_signed {
                o.fail(format!("server sent something other than the signed content ({:?}) and the stream ended without error", case.corruption));
            }
        }
        Some(e) => {
            if served_equals_signed {
                o.fail(format!("the server sent exactly the signed content but the stream failed: {e}"));
            }
            o.label("ended-in-error");
        }
    }
    // which file was requested
    if reqs.first().map(|s| s.as_str()) != Some(file.as_str()) || reqs.len() != 1 {
        o.fail(format!("expected exactly one request for {file:?}, got {reqs:?}"));
    }
    o
}

fn chunking(len: u32) -> BoxedStrategy<Chunking> {
    let l = len.max(1) as usize;
    prop_oneof![
        2 => Just(Chunking::Whole),
        2 => prop::sample::select(vec![1usize, 2, 3, 7, 64, 1000, 4096]).prop_map(Chunking::Fixed),
        3 => prop::collection::vec(0..=l, 1..6).prop_map(Chunking::Cuts),
    ]
    .boxed()
}

fn length() -> impl Strategy<Value = u32> {
    prop_oneof![
        3 => prop::sample::select(vec![0u32, 1, 2, 63, 64, 65, 4095, 4096, 4097, 8192, 65536]),
        2 => 0u32..3000,
        1 => 0u32..65536,
    ]
}

fn corruption(len: u32) -> BoxedStrategy<Corruption> {
    let l = len.max(1);
    prop_oneof![
        3 => Just(Corruption::None),
        3 => (0..l * 8).prop_map(Corruption::BitFlip),
        2 => (0..l).prop_map(Corruption::Truncate),
        2 => prop_oneof![Just(1u16), 1u16..2000].prop_map(Corruption::Extend),
        2 => any::<bool>().prop_map(Corruption::Substitute),
        1 => prop::sample::select(vec![1u16, 100, 4096]).prop_map(Corruption::Endless),
        2 => (0u16..8).prop_map(Corruption::ErrorAt),
    ]
    .boxed()
}

fn case_strategy() -> impl Strategy<Value = Case> {
    length().prop_flat_map(|len| {
        (
            any::<bool>(),
            any::<bool>(),
            Just(len),
            any::<u8>(),
            chunking(len),
            corruption(len),
            prop_oneof![4 => Just(Name::Plain), 2 => Just(Name::SubDir), 2 => Just(Name::Resolvable), 1 => Just(Name::Absent)],
        )
            .prop_map(|(consistent, delegated, len, seed, chunking, corruption, name)| Case { consistent, delegated, len, seed, chunking, corruption, name })
    })
}

fn grid() -> Vec<Case> {
    let mut v = Vec::new();
    let base = |i: usize, c: Corruption, ch: Chunking| Case {
        consistent: i % 2 == 0,
        delegated: i % 3 == 0,
        len: 64,
        seed: 7,
        chunking: ch,
        corruption: c,
        name: Name::Plain,
    };
    for p in 0..512u32 {
        v.push(base(p as usize, Corruption::BitFlip(p), Chunking::Fixed(8)));
    }
    for at in 0..64u32 {
        v.push(base(at as usize, Corruption::Truncate(at), Chunking::Fixed(5)));
    }
    for k in 0..10u16 {
        v.push(base(k as usize, Corruption::ErrorAt(k), Chunking::Fixed(8)));
        v.push(base(k as usize + 1, Corruption::ErrorAt(k), Chunking::Fixed(1)));
    }
    for n in 1..=16u16 {
        v.push(base(n as usize, Corruption::Extend(n), Chunking::Fixed(8)));
        v.push(base(n as usize, Corruption::Extend(n), Chunking::Whole));
    }
    for cut in 0..=64usize {
        v.push(base(cut, Corruption::None, Chunking::Cuts(vec![cut])));
        v.push(base(cut, Corruption::None, Chunking::Cuts(vec![cut, cut])));
    }
    v
}

pub fn check(ctx: &Ctx) -> Vec<PartReport> {
    let mut out = Vec::new();
    out.push(run_part(
        ctx,
        PartSpec {
            name: "64-byte-target",
            rule: "EXHAUSTIVE for one 64-byte target: every single-bit flip (512), every truncation point (64), transport error after every chunk count for 8-byte and 1-byte chunks, extension by 1..16 bytes in chunks and as one chunk, every two-chunk split point with and without an empty chunk; top-level and delegated, both consistent-snapshot settings alternate. Non-trivial: always (a corruption or >=2 chunks); distinct = whole case",
            mode: Mode::Enumerate { cases: grid(), complete: true },
            prop: Box::new(prop),
            require: vec![],
        },
    ));
    let n = ctx.cases(30_000, 400_000);
    out.push(run_part(
        ctx,
        PartSpec {
            name: "streams",
            rule: "random: content length from {0,1,2,63..65,4095..4097,8192,65536} or uniform up to 64 KiB; chunkings (single chunk, fixed size 1..4096, up to 5 random cut points incl. empty chunks); corruption in {none, bit flip at any position, truncation at any position, extension by 1..2000 bytes, another signed target's content of the same or half length, endless stream, transport error after k chunks}; target listed by the top-level role or a delegated role, plain / sub-directory / resolvable name, or a name no role lists; both consistent-snapshot settings. Oracle: items are Ok chunks optionally ended by one Err; no Err => bytes equal the signed content; any other served content => Err; never more than the signed length handed over; unlisted name => Ok(None) and no request; exactly one request, for the digest-prefixed file under consistent snapshots. Non-trivial: a corruption, >=2 chunks, or an unlisted name; distinct = whole case",
            mode: Mode::Random { cases: n, strategy: Box::new(|| bx(case_strategy())) },
            prop: Box::new(prop),
            require: vec![
                ("corruption:none", n as u64 / 10),
                ("corruption:bitflip", n as u64 / 20),
                ("corruption:endless", n as u64 / 50),
                ("corruption:transport-error", n as u64 / 30),
                ("name:Absent", n as u64 / 30),
                ("multi-chunk", n as u64 / 4),
                ("ended-in-error", n as u64 / 4),
            ],
        },
    ));
    out
}

pub fn replay(_ctx: &Ctx, _part: &str, case: &Value) -> Outcome {
    crate::engine::replay_case::<Case>(case, prop)
}
