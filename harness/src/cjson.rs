//! The forge's own canonical JSON (OLPC) encoder. Deliberately independent of olpc-cjson: it is
//! what "another conforming implementation" would sign. Strings must already be NFC; the forge only
//! uses ASCII plus a few NFC-inert characters and this is asserted.

use serde_json::Value;

fn nfc_inert(c: char) -> bool {
    // ASCII and a hand-checked set of precomposed / inert characters used by the generators.
    (c as u32) < 0x80
        || matches!(
            c,
            'é' | 'ü' | 'ö' | 'ä' | 'ß' | 'ø' | 'ñ' | '中' | '文' | '🍺' | 'Ω' | 'ж' | '€' | '\u{ff45}'
        )
}

pub fn assert_inert(s: &str) {
    for c in s.chars() {
        assert!(
            nfc_inert(c),
            "forge string {s:?} contains {c:?}, which is outside the NFC-inert set"
        );
    }
}

fn write_string(out: &mut Vec<u8>, s: &str) {
    assert_inert(s);
    out.push(b'"');
    for b in s.bytes() {
        match b {
            b'"' => out.extend_from_slice(b"\\\""),
            b'\\' => out.extend_from_slice(b"\\\\"),
            _ => out.push(b),
        }
    }
    out.push(b'"');
}

/// Canonical form of `v`; `Err` if it contains a float.
pub fn canon(v: &Value) -> Result<Vec<u8>, String> {
    let mut out = Vec::new();
    write(&mut out, v)?;
    Ok(out)
}

fn write(out: &mut Vec<u8>, v: &Value) -> Result<(), String> {
    match v {
        Value::Null => out.extend_from_slice(b"null"),
        Value::Bool(true) => out.extend_from_slice(b"true"),
        Value::Bool(false) => out.extend_from_slice(b"false"),
        Value::Number(n) => {
            if let Some(u) = n.as_u64() {
                out.extend_from_slice(u.to_string().as_bytes());
            } else if let Some(i) = n.as_i64() {
                out.extend_from_slice(i.to_string().as_bytes());
            } else {
                return Err("float".into());
            }
        }
        Value::String(s) => write_string(out, s),
        Value::Array(a) => {
            out.push(b'[');
            for (i, x) in a.iter().enumerate() {
                if i > 0 {
                    out.push(b',');
                }
                write(out, x)?;
            }
            out.push(b']');
        }
        Value::Object(m) => {
            let mut keys: Vec<&String> = m.keys().collect();
            // order by code points == order by UTF-8 bytes
            keys.sort_by(|a, b| a.as_bytes().cmp(b.as_bytes()));
            out.push(b'{');
            for (i, k) in keys.iter().enumerate() {
                if i > 0 {
                    out.push(b',');
                }
                write_string(out, k);
                out.push(b':');
                write(out, &m[*k])?;
            }
            out.push(b'}');
        }
    }
    Ok(())
}

pub fn sha256(data: &[u8]) -> Vec<u8> {
    aws_lc_rs::digest::digest(&aws_lc_rs::digest::SHA256, data)
        .as_ref()
        .to_vec()
}

pub fn sha256_hex(data: &[u8]) -> String {
    hex::encode(sha256(data))
}
