//! Committed key pool (harness/keys): runs never depend on key generation.

use aws_lc_rs::rand::SystemRandom;
use aws_lc_rs::signature::{EcdsaKeyPair, Ed25519KeyPair, KeyPair, RsaKeyPair};
use serde_json::{json, Value};
use std::path::PathBuf;
use std::sync::OnceLock;

#[derive(Clone, Copy, Debug, PartialEq, Eq, Hash, serde::Serialize, serde::Deserialize)]
pub enum Alg {
    Ed25519,
    Ecdsa,
    Rsa,
}

enum Pair {
    Ed(Ed25519KeyPair),
    Ec(EcdsaKeyPair),
    Rsa(RsaKeyPair),
}

pub struct PoolKey {
    pub idx: usize,
    pub name: String,
    pub alg: Alg,
    pair: Pair,
    /// TUF key object as the forge writes it
    pub public: Value,
    /// lower-case hex key id = SHA-256 of the forge's canonical form of `public`
    pub keyid: String,
    /// private key file usable with tough's LocalKeySource / tuftool -k
    pub priv_path: PathBuf,
    /// raw public key bytes (ed25519: 32 bytes, ecdsa: uncompressed point, rsa: RSAPublicKey DER)
    pub raw_public: Vec<u8>,
    /// PEM (SPKI) of the public key, trimmed
    pub pub_pem: String,
}

pub fn keys_dir() -> PathBuf {
    PathBuf::from(env!("CARGO_MANIFEST_DIR")).join("keys")
}

impl PoolKey {
    pub fn sign(&self, msg: &[u8]) -> Vec<u8> {
        let rng = SystemRandom::new();
        match &self.pair {
            Pair::Ed(k) => k.sign(msg).as_ref().to_vec(),
            Pair::Ec(k) => k.sign(&rng, msg).expect("ecdsa sign").as_ref().to_vec(),
            Pair::Rsa(k) => {
                let mut sig = vec![0; k.public_modulus_len()];
                k.sign(&aws_lc_rs::signature::RSA_PSS_SHA256, &rng, msg, &mut sig)
                    .expect("rsa sign");
                sig
            }
        }
    }

    /// Independent verification (aws-lc directly), used by oracles that need "is this signature
    /// genuinely valid".
    pub fn verify(&self, msg: &[u8], sig: &[u8]) -> bool {
        use aws_lc_rs::signature::{UnparsedPublicKey, ECDSA_P256_SHA256_ASN1, ED25519, RSA_PSS_2048_8192_SHA256};
        match self.alg {
            Alg::Ed25519 => UnparsedPublicKey::new(&ED25519, &self.raw_public).verify(msg, sig).is_ok(),
            Alg::Ecdsa => UnparsedPublicKey::new(&ECDSA_P256_SHA256_ASN1, &self.raw_public)
                .verify(msg, sig)
                .is_ok(),
            Alg::Rsa => UnparsedPublicKey::new(&RSA_PSS_2048_8192_SHA256, &self.raw_public)
                .verify(msg, sig)
                .is_ok(),
        }
    }

    /// Alternative spellings of the same key (different key object => different key id).
    /// ecdsa: old key type name, hex-encoded point.
    pub fn public_variant(&self, variant: u8) -> Value {
        match (self.alg, variant % 3) {
            (Alg::Ecdsa, 1) => json!({"keytype":"ecdsa-sha2-nistp256","scheme":"ecdsa-sha2-nistp256","keyval":{"public": self.pub_pem}}),
            (Alg::Ecdsa, 2) => json!({"keytype":"ecdsa","scheme":"ecdsa-sha2-nistp256","keyval":{"public": hex::encode(&self.raw_public)}}),
            _ => self.public.clone(),
        }
    }
}

pub fn keyid_of(public: &Value) -> String {
    crate::cjson::sha256_hex(&crate::cjson::canon(public).expect("key object canonical"))
}

fn load() -> Vec<PoolKey> {
    let dir = keys_dir();
    let mut v = Vec::new();
    let mut push = |name: String, alg: Alg, pair: Pair, raw_public: Vec<u8>, priv_path: PathBuf| {
        let pub_pem = std::fs::read_to_string(dir.join(format!("{name}.pub.pem")))
            .expect("pub pem")
            .trim()
            .to_string();
        let public = match alg {
            Alg::Ed25519 => json!({"keytype":"ed25519","scheme":"ed25519","keyval":{"public": hex::encode(&raw_public)}}),
            Alg::Ecdsa => json!({"keytype":"ecdsa","scheme":"ecdsa-sha2-nistp256","keyval":{"public": pub_pem}}),
            Alg::Rsa => json!({"keytype":"rsa","scheme":"rsassa-pss-sha256","keyval":{"public": pub_pem}}),
        };
        let keyid = keyid_of(&public);
        let idx = v.len();
        v.push(PoolKey { idx, name, alg, pair, public, keyid, priv_path, raw_public, pub_pem });
    };
    for i in 0..12 {
        let p = dir.join(format!("ed{i}.pk8"));
        let der = std::fs::read(&p).expect("ed key");
        let kp = Ed25519KeyPair::from_pkcs8(&der).expect("ed25519 pkcs8");
        let raw = kp.public_key().as_ref().to_vec();
        push(format!("ed{i}"), Alg::Ed25519, Pair::Ed(kp), raw, p);
    }
    for i in 0..4 {
        let p = dir.join(format!("ec{i}.pk8"));
        let der = std::fs::read(&p).expect("ec key");
        let kp = EcdsaKeyPair::from_pkcs8(&aws_lc_rs::signature::ECDSA_P256_SHA256_ASN1_SIGNING, &der)
            .expect("ecdsa pkcs8");
        let raw = kp.public_key().as_ref().to_vec();
        push(format!("ec{i}"), Alg::Ecdsa, Pair::Ec(kp), raw, p);
    }
    for i in 0..3 {
        let p = dir.join(format!("rsa{i}.pem"));
        let pemdata = std::fs::read(&p).expect("rsa key");
        let parsed = pem::parse(&pemdata).expect("rsa pem");
        let kp = RsaKeyPair::from_pkcs8(parsed.contents()).expect("rsa pkcs8");
        let raw = kp.public_key().as_ref().to_vec();
        push(format!("rsa{i}"), Alg::Rsa, Pair::Rsa(kp), raw, p);
    }
    v
}

static POOL: OnceLock<Vec<PoolKey>> = OnceLock::new();

pub fn pool() -> &'static [PoolKey] {
    POOL.get_or_init(load)
}

pub fn key(i: usize) -> &'static PoolKey {
    &pool()[i % pool().len()]
}

/// indices by algorithm
pub const ED: std::ops::Range<usize> = 0..12;
pub const EC: std::ops::Range<usize> = 12..16;
pub const RSA: std::ops::Range<usize> = 16..19;
pub const POOL_LEN: usize = 19;

pub fn by_keyid(id: &str) -> Option<&'static PoolKey> {
    pool().iter().find(|k| k.keyid.eq_ignore_ascii_case(id))
}
