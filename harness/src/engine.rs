//! Property engine: drives proptest `TestRunner`s in parallel shards (or enumerates a finite case
//! list), counts what was generated, shrinks the first failure, and hands back a report that
//! `main` turns into evidence, a replay file and the exit code.
//!
//! Every random choice is made by a proptest strategy seeded from VERIF_SEED; the property
//! functions are pure functions of (case, code under test).

use proptest::strategy::{BoxedStrategy, Strategy};
use proptest::test_runner::{Config, RngSeed, TestCaseError, TestError, TestRunner};
use serde::de::DeserializeOwned;
use serde::Serialize;
use serde_json::Value;
use std::cell::RefCell;
use std::collections::hash_map::DefaultHasher;
use std::collections::{BTreeMap, HashSet};
use std::fmt::Debug;
use std::hash::{Hash, Hasher};
use std::sync::atomic::{AtomicBool, Ordering};
use std::sync::Mutex;

#[derive(Clone, Copy, Debug, PartialEq, Eq)]
pub enum Tier {
    Quick,
    Thorough,
}

impl Tier {
    pub fn name(self) -> &'static str {
        match self {
            Tier::Quick => "quick",
            Tier::Thorough => "thorough",
        }
    }
    /// pick by tier
    pub fn pick<T>(self, quick: T, thorough: T) -> T {
        match self {
            Tier::Quick => quick,
            Tier::Thorough => thorough,
        }
    }
}

/// What one evaluation of a property on one case produced.
#[derive(Debug, Default, Clone)]
pub struct Outcome {
    /// `Some(reason)`: the property is violated by this case.
    pub fail: Option<String>,
    /// Classification labels (histogrammed in the evidence).
    pub labels: Vec<String>,
    /// Non-trivial by the rule stated for the part.
    pub nontrivial: bool,
    /// Abstract shape of the case; distinct non-trivial cases are counted by this.
    pub shape: String,
    /// Number of observations inside this case that matched a listed known finding and were
    /// treated as the expected behaviour.
    pub known_hits: u64,
    /// Sub-cases that could not be decided (e.g. fault injection did not land): never a violation.
    pub inconclusive: u64,
    /// Number of sub-evaluations this case stands for (default 1).
    pub weight: u64,
}

impl Outcome {
    pub fn new() -> Self {
        Outcome {
            weight: 1,
            ..Default::default()
        }
    }
    pub fn label(&mut self, l: impl Into<String>) {
        let l = l.into();
        if !self.labels.contains(&l) {
            self.labels.push(l);
        }
    }
    pub fn fail(&mut self, msg: impl Into<String>) {
        if self.fail.is_none() {
            self.fail = Some(msg.into());
        }
    }
    pub fn failed(&self) -> bool {
        self.fail.is_some()
    }
}

/// Shared run context.
pub struct Ctx {
    pub tier: Tier,
    pub seed: u64,
    pub shards: usize,
    pub scale: f64,
    pub known: crate::known::KnownFindings,
    pub stop: AtomicBool,
}

impl Ctx {
    pub fn cases(&self, quick: u32, thorough: u32) -> u32 {
        let n = self.tier.pick(quick, thorough) as f64 * self.scale;
        (n.ceil() as u32).max(1)
    }
}

pub enum Mode<C> {
    Random {
        cases: u32,
        strategy: Box<dyn Fn() -> BoxedStrategy<C> + Sync + Send>,
    },
    Enumerate {
        cases: Vec<C>,
        /// true when `cases` is the complete finite space described by the rule
        complete: bool,
    },
}

pub struct PartSpec<'a, C> {
    pub name: &'a str,
    pub rule: &'a str,
    pub mode: Mode<C>,
    pub prop: Box<dyn Fn(&C) -> Outcome + Sync + Send + 'a>,
    /// minimum label counts; a run that does not reach them is a broken generator (exit 2)
    pub require: Vec<(&'a str, u64)>,
}

#[derive(Debug, Clone, Serialize)]
pub struct Failure {
    pub part: String,
    pub case: Value,
    pub message: String,
}

#[derive(Debug, Clone, Serialize, Default)]
pub struct PartReport {
    pub part: String,
    pub rule: String,
    pub evaluations: u64,
    pub distinct_nontrivial: u64,
    pub nontrivial: u64,
    pub labels: BTreeMap<String, u64>,
    pub samples: Vec<Value>,
    pub exhaustive: bool,
    pub known_finding_hits: u64,
    pub inconclusive: u64,
    #[serde(skip)]
    pub failure: Option<Failure>,
    /// harness trouble (generator collapsed etc.)
    #[serde(skip)]
    pub trouble: Option<String>,
    pub wall_s: f64,
}

#[derive(Default)]
struct Stats {
    evaluations: u64,
    nontrivial: u64,
    labels: BTreeMap<String, u64>,
    shapes: HashSet<u64>,
    samples_nt: Vec<Value>,
    samples_tr: Vec<Value>,
    known_hits: u64,
    inconclusive: u64,
}

impl Stats {
    fn record<C: Serialize>(&mut self, case: &C, o: &Outcome) {
        self.evaluations += o.weight.max(1);
        self.known_hits += o.known_hits;
        self.inconclusive += o.inconclusive;
        for l in &o.labels {
            *self.labels.entry(l.clone()).or_default() += 1;
        }
        if o.nontrivial {
            self.nontrivial += 1;
            let mut h = DefaultHasher::new();
            o.shape.hash(&mut h);
            let fresh = self.shapes.insert(h.finish());
            if fresh && self.samples_nt.len() < 4 {
                if let Ok(v) = serde_json::to_value(case) {
                    self.samples_nt.push(v);
                }
            }
        } else if self.samples_tr.len() < 1 {
            if let Ok(v) = serde_json::to_value(case) {
                self.samples_tr.push(v);
            }
        }
    }
    fn merge(&mut self, other: Stats) {
        self.evaluations += other.evaluations;
        self.nontrivial += other.nontrivial;
        self.known_hits += other.known_hits;
        self.inconclusive += other.inconclusive;
        for (k, v) in other.labels {
            *self.labels.entry(k).or_default() += v;
        }
        self.shapes.extend(other.shapes);
        self.samples_nt.extend(other.samples_nt);
        self.samples_tr.extend(other.samples_tr);
    }
}

thread_local! {
    /// location and message of the last panic on this thread (set by the hook installed in main)
    pub static LAST_PANIC: RefCell<Option<(String, String)>> = const { RefCell::new(None) };
}

pub fn install_panic_hook() {
    std::panic::set_hook(Box::new(|info| {
        let loc = info.location().map(|l| format!("{}:{}", l.file(), l.line())).unwrap_or_default();
        let msg = if let Some(s) = info.payload().downcast_ref::<&str>() {
            s.to_string()
        } else if let Some(s) = info.payload().downcast_ref::<String>() {
            s.clone()
        } else {
            "panic".to_string()
        };
        LAST_PANIC.with(|p| *p.borrow_mut() = Some((loc, msg)));
    }));
}

/// Runs the property, converting a panic into an outcome: a panic raised inside awslabs/tough
/// source files is a violation (the library crashed on the generated input); a panic anywhere else
/// is harness trouble (`inconclusive` + label), never a violation.
pub fn guarded<C>(prop: &(dyn Fn(&C) -> Outcome + Sync + Send + '_), case: &C) -> Outcome {
    match std::panic::catch_unwind(std::panic::AssertUnwindSafe(|| prop(case))) {
        Ok(o) => o,
        Err(_) => {
            let (loc, msg) = LAST_PANIC.with(|p| p.borrow_mut().take()).unwrap_or_default();
            let mut o = Outcome::new();
            let in_repo = loc.starts_with("/repo/") || loc.starts_with("tough/src") || loc.starts_with("olpc-cjson/src") || loc.starts_with("src/") && false;
            if in_repo {
                o.fail(format!("panic inside awslabs/tough at {loc}: {msg}"));
                o.label("panic-in-tough");
            } else {
                o.inconclusive = 1;
                o.label(format!("HARNESS-PANIC at {loc}: {msg}"));
            }
            o
        }
    }
}

fn shard_seed(seed: u64, part: &str, shard: usize) -> [u8; 32] {
    // a fixed, documented mixing: SHA-256("verif" || seed || part || shard)
    let mut ctx = aws_lc_rs::digest::Context::new(&aws_lc_rs::digest::SHA256);
    ctx.update(b"tough-verif");
    ctx.update(&seed.to_le_bytes());
    ctx.update(part.as_bytes());
    ctx.update(&(shard as u64).to_le_bytes());
    let d = ctx.finish();
    let mut out = [0u8; 32];
    out.copy_from_slice(d.as_ref());
    out
}

pub fn run_part<C>(ctx: &Ctx, spec: PartSpec<'_, C>) -> PartReport
where
    C: Serialize + Debug + Clone + Send + Sync + 'static,
{
    let t0 = std::time::Instant::now();
    let total = Mutex::new(Stats::default());
    let failure: Mutex<Option<Failure>> = Mutex::new(None);
    let part_stop = AtomicBool::new(false);
    let exhaustive;
    let prop = &spec.prop;
    let name = spec.name;

    match &spec.mode {
        Mode::Random { cases, strategy } => {
            exhaustive = false;
            let shards = ctx.shards.max(1).min(*cases as usize).max(1);
            let per = (*cases as usize + shards - 1) / shards;
            std::thread::scope(|s| {
                for shard in 0..shards {
                    let total = &total;
                    let failure = &failure;
                    let part_stop = &part_stop;
                    let strategy = &strategy;
                    s.spawn(move || {
                        let stats = RefCell::new(Stats::default());
                        let frozen = std::cell::Cell::new(false);
                        let seed = shard_seed(ctx.seed, name, shard);
                        // proptest's ChaCha seed is 32 bytes; RngSeed::Fixed takes a u64, so fold.
                        let mut s64 = 0u64;
                        for (i, b) in seed.iter().enumerate() {
                            s64 ^= (*b as u64) << ((i % 8) * 8);
                        }
                        let config = Config {
                            cases: per as u32,
                            failure_persistence: None,
                            rng_seed: RngSeed::Fixed(s64),
                            max_shrink_iters: 4000,
                            max_global_rejects: 1,
                            verbose: 0,
                            ..Config::default()
                        };
                        let mut runner = TestRunner::new(config);
                        let strat = strategy();
                        let res = runner.run(&strat, |case| {
                            if !frozen.get()
                                && (part_stop.load(Ordering::Relaxed)
                                    || ctx.stop.load(Ordering::Relaxed))
                            {
                                return Ok(());
                            }
                            let o = guarded(prop.as_ref(), &case);
                            if !frozen.get() {
                                stats.borrow_mut().record(&case, &o);
                            }
                            match o.fail {
                                Some(msg) => {
                                    if !frozen.get() {
                                        frozen.set(true);
                                        part_stop.store(true, Ordering::Relaxed);
                                    }
                                    Err(TestCaseError::fail(msg))
                                }
                                None => Ok(()),
                            }
                        });
                        match res {
                            Ok(()) => {}
                            Err(TestError::Fail(reason, value)) => {
                                // re-evaluate the shrunk case for the exact message
                                let o = guarded(prop.as_ref(), &value);
                                let message = o.fail.unwrap_or_else(|| reason.message().to_string());
                                let mut f = failure.lock().unwrap();
                                if f.is_none() {
                                    *f = Some(Failure {
                                        part: name.to_string(),
                                        case: serde_json::to_value(&value)
                                            .unwrap_or(Value::String(format!("{value:?}"))),
                                        message,
                                    });
                                }
                            }
                            Err(TestError::Abort(reason)) => {
                                let mut f = failure.lock().unwrap();
                                // an abort is harness trouble, reported through `trouble`
                                if f.is_none() {
                                    *f = Some(Failure {
                                        part: name.to_string(),
                                        case: Value::Null,
                                        message: format!("__ABORT__ {reason}"),
                                    });
                                }
                            }
                        }
                        total.lock().unwrap().merge(stats.into_inner());
                    });
                }
            });
        }
        Mode::Enumerate { cases, complete } => {
            exhaustive = *complete;
            let shards = ctx.shards.max(1).min(cases.len().max(1));
            let next = std::sync::atomic::AtomicUsize::new(0);
            let first_fail = Mutex::new(None::<(usize, String)>);
            std::thread::scope(|s| {
                for _ in 0..shards {
                    let total = &total;
                    let next = &next;
                    let first_fail = &first_fail;
                    let part_stop = &part_stop;
                    s.spawn(move || {
                        let mut stats = Stats::default();
                        loop {
                            if part_stop.load(Ordering::Relaxed) || ctx.stop.load(Ordering::Relaxed) {
                                break;
                            }
                            let i = next.fetch_add(1, Ordering::Relaxed);
                            if i >= cases.len() {
                                break;
                            }
                            let o = guarded(prop.as_ref(), &cases[i]);
                            stats.record(&cases[i], &o);
                            if let Some(msg) = o.fail {
                                let mut ff = first_fail.lock().unwrap();
                                if ff.as_ref().map_or(true, |(j, _)| i < *j) {
                                    *ff = Some((i, msg));
                                }
                                part_stop.store(true, Ordering::Relaxed);
                                break;
                            }
                        }
                        total.lock().unwrap().merge(stats);
                    });
                }
            });
            if let Some((i, message)) = first_fail.into_inner().unwrap() {
                *failure.lock().unwrap() = Some(Failure {
                    part: name.to_string(),
                    case: serde_json::to_value(&cases[i]).unwrap_or(Value::Null),
                    message,
                });
            }
        }
    }

    let stats = total.into_inner().unwrap();
    let mut failure = failure.into_inner().unwrap();
    let mut trouble = None;
    if let Some(f) = &failure {
        if f.message.starts_with("__ABORT__") {
            trouble = Some(format!("part {name}: proptest aborted: {}", f.message));
            failure = None;
        }
    }
    if let Some((l, _)) = stats.labels.iter().find(|(l, _)| l.starts_with("HARNESS-PANIC")) {
        trouble = Some(format!("part {name}: {l}"));
    }
    if failure.is_none() && trouble.is_none() && !ctx.stop.load(Ordering::Relaxed) {
        for (label, min) in &spec.require {
            let got = stats.labels.get(*label).copied().unwrap_or(0);
            if got < *min {
                trouble = Some(format!(
                    "part {name}: generator collapsed: label '{label}' seen {got} times, at least {min} required"
                ));
                break;
            }
        }
    }
    if failure.is_some() {
        ctx.stop.store(true, Ordering::Relaxed);
    }
    let mut samples = stats.samples_nt;
    samples.truncate(5);
    samples.extend(stats.samples_tr.into_iter().take(1));
    PartReport {
        part: name.to_string(),
        rule: spec.rule.to_string(),
        evaluations: stats.evaluations,
        distinct_nontrivial: stats.shapes.len() as u64,
        nontrivial: stats.nontrivial,
        labels: stats.labels,
        samples,
        exhaustive: exhaustive && failure.is_none(),
        known_finding_hits: stats.known_hits,
        inconclusive: stats.inconclusive,
        failure,
        trouble,
        wall_s: t0.elapsed().as_secs_f64(),
    }
}

/// Convenience for `replay`: deserialize a case and run the property once.
pub fn replay_case<C: DeserializeOwned>(case: &Value, prop: impl Fn(&C) -> Outcome) -> Outcome {
    match serde_json::from_value::<C>(case.clone()) {
        Ok(c) => prop(&c),
        Err(e) => {
            let mut o = Outcome::new();
            o.label(format!("replay-parse-error: {e}"));
            o.inconclusive = 1;
            o
        }
    }
}

/// Monotone index mapping for shrink-friendly selection: maps a u16 onto 0..len.
pub fn pick_idx(x: u16, len: usize) -> usize {
    if len == 0 {
        0
    } else {
        ((x as usize) * len) >> 16
    }
}

/// strategy helper: boxed
pub fn bx<S: Strategy + 'static>(s: S) -> BoxedStrategy<S::Value> {
    s.boxed()
}
