//! Per-thread current-thread tokio runtime and the clock hook.

use chrono::{DateTime, TimeZone, Utc};
use std::future::Future;

thread_local! {
    static RT: tokio::runtime::Runtime = tokio::runtime::Builder::new_current_thread()
        .enable_all()
        .max_blocking_threads(2)
        .build()
        .expect("tokio runtime");
}

/// Run a future to completion on this thread's runtime. All polling (and therefore every clock
/// sample taken by `Datastore::system_time`) happens on the calling thread.
pub fn block_on<F: Future>(f: F) -> F::Output {
    RT.with(|rt| rt.block_on(f))
}

/// The harness' reference instant: 2030-01-01T00:00:00Z. Forged metadata expires relative to it.
pub fn t0() -> DateTime<Utc> {
    Utc.with_ymd_and_hms(2030, 1, 1, 0, 0, 0).unwrap()
}

pub fn set_now(t: DateTime<Utc>) {
    tough::verif_hooks::set_now(Some(t));
}

pub fn clear_now() {
    tough::verif_hooks::set_now(None);
}

/// RFC 3339 with `Z`, whole seconds or milliseconds as needed (what TUF metadata carries).
pub fn rfc3339(t: DateTime<Utc>) -> String {
    if t.timestamp_subsec_nanos() == 0 {
        t.format("%Y-%m-%dT%H:%M:%SZ").to_string()
    } else {
        t.format("%Y-%m-%dT%H:%M:%S%.3fZ").to_string()
    }
}
