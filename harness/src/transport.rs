//! Transports owned by the harness: a scripted in-memory transport that logs every request and
//! the bytes pulled from each stream, and a directory transport that behaves like a web server
//! (percent-decodes the request path).

use bytes::Bytes;
use futures::stream::Stream;
use std::collections::HashMap;
use std::path::PathBuf;
use std::pin::Pin;
use std::sync::atomic::{AtomicBool, AtomicU64, AtomicUsize, Ordering};
use std::sync::{Arc, Mutex};
use std::task::{Context, Poll};
use tough::{async_trait, Transport, TransportError, TransportErrorKind};
use url::Url;

pub const META_BASE: &str = "http://repo.test/metadata/";
pub const TARGETS_BASE: &str = "http://repo.test/targets/";

pub fn meta_url() -> Url {
    Url::parse(META_BASE).unwrap()
}
pub fn targets_url() -> Url {
    Url::parse(TARGETS_BASE).unwrap()
}

#[derive(Clone, Debug, serde::Serialize, serde::Deserialize, PartialEq, Eq)]
pub enum Chunking {
    Whole,
    Fixed(usize),
    /// cut positions (need not be sorted or distinct: duplicates produce empty chunks)
    Cuts(Vec<usize>),
}

impl Chunking {
    pub fn split(&self, data: &[u8]) -> Vec<Bytes> {
        match self {
            // an empty body is a stream without any chunk (what a file or HTTP transport yields);
            // explicit empty chunks come from `Cuts`
            Chunking::Whole => {
                if data.is_empty() {
                    vec![]
                } else {
                    vec![Bytes::copy_from_slice(data)]
                }
            }
            Chunking::Fixed(n) => {
                let n = (*n).max(1);
                if data.is_empty() {
                    vec![]
                } else {
                    data.chunks(n).map(Bytes::copy_from_slice).collect()
                }
            }
            Chunking::Cuts(c) => {
                let mut cuts: Vec<usize> = c.iter().map(|x| (*x).min(data.len())).collect();
                cuts.sort_unstable();
                let mut out = Vec::new();
                let mut prev = 0;
                for x in cuts {
                    out.push(Bytes::copy_from_slice(&data[prev..x]));
                    prev = x;
                }
                out.push(Bytes::copy_from_slice(&data[prev..]));
                out
            }
        }
    }
}

#[derive(Clone, Debug)]
pub enum Resp {
    /// the whole body, in the given chunking
    Body(Arc<Vec<u8>>, Chunking),
    NotFound,
    /// fetch() itself fails with kind Other
    OpenError,
    /// body chunks, then a transport error after `ok_chunks` chunks were delivered
    ErrorAfter(Arc<Vec<u8>>, Chunking, usize),
    /// never ends: chunks of the given size, forever (until the harness' byte cap)
    Endless(usize),
}

impl Resp {
    pub fn body(data: impl Into<Vec<u8>>) -> Resp {
        Resp::Body(Arc::new(data.into()), Chunking::Whole)
    }
    pub fn chunked(data: impl Into<Vec<u8>>, c: Chunking) -> Resp {
        Resp::Body(Arc::new(data.into()), c)
    }
}

#[derive(Debug)]
pub struct LogEntry {
    pub url: String,
    pub pulled: Arc<AtomicU64>,
    pub known: bool,
}

pub type Observer = Arc<dyn Fn(&str, usize) + Send + Sync>;

struct Inner {
    files: Mutex<HashMap<String, Resp>>,
    log: Mutex<Vec<LogEntry>>,
    request_cap: usize,
    byte_cap: u64,
    requests: AtomicUsize,
    overflow: AtomicBool,
    observer: Mutex<Option<Observer>>,
}

#[derive(Clone)]
pub struct MemTransport {
    inner: Arc<Inner>,
}

impl std::fmt::Debug for MemTransport {
    fn fmt(&self, f: &mut std::fmt::Formatter<'_>) -> std::fmt::Result {
        f.write_str("MemTransport")
    }
}

impl Default for MemTransport {
    fn default() -> Self {
        Self::new()
    }
}

impl MemTransport {
    pub fn new() -> Self {
        Self::with_caps(5000, 64 << 20)
    }
    pub fn with_caps(request_cap: usize, byte_cap: u64) -> Self {
        MemTransport {
            inner: Arc::new(Inner {
                files: Mutex::new(HashMap::new()),
                log: Mutex::new(Vec::new()),
                request_cap,
                byte_cap,
                requests: AtomicUsize::new(0),
                overflow: AtomicBool::new(false),
                observer: Mutex::new(None),
            }),
        }
    }
    /// `path` is relative to http://repo.test/ e.g. "metadata/1.root.json"; it is stored under the
    /// URL string the `url` crate produces for it (the transport only ever sees such strings).
    pub fn set_meta(&self, file: &str, r: Resp) {
        let u = meta_url().join(file).expect("meta url join");
        self.inner.files.lock().unwrap().insert(u.to_string(), r);
    }
    pub fn set_target(&self, file: &str, r: Resp) {
        let u = targets_url().join(file).expect("targets url join");
        self.inner.files.lock().unwrap().insert(u.to_string(), r);
    }
    pub fn set_url(&self, url: &str, r: Resp) {
        self.inner.files.lock().unwrap().insert(url.to_string(), r);
    }
    pub fn remove_meta(&self, file: &str) {
        let u = meta_url().join(file).expect("meta url join");
        self.inner.files.lock().unwrap().remove(u.as_str());
    }
    pub fn clear(&self) {
        self.inner.files.lock().unwrap().clear();
    }
    pub fn clear_log(&self) {
        self.inner.log.lock().unwrap().clear();
        self.inner.requests.store(0, Ordering::SeqCst);
    }
    pub fn set_observer(&self, o: Option<Observer>) {
        *self.inner.observer.lock().unwrap() = o;
    }
    /// (url, bytes pulled) in request order
    pub fn log(&self) -> Vec<(String, u64)> {
        self.inner
            .log
            .lock()
            .unwrap()
            .iter()
            .map(|e| (e.url.clone(), e.pulled.load(Ordering::SeqCst)))
            .collect()
    }
    /// requested metadata file names (relative to the metadata base), in order
    pub fn meta_requests(&self) -> Vec<String> {
        self.log()
            .into_iter()
            .filter_map(|(u, _)| u.strip_prefix(META_BASE).map(|s| s.to_string()))
            .collect()
    }
    pub fn target_requests(&self) -> Vec<String> {
        self.log()
            .into_iter()
            .filter_map(|(u, _)| u.strip_prefix(TARGETS_BASE).map(|s| s.to_string()))
            .collect()
    }
    pub fn request_count(&self) -> usize {
        self.inner.requests.load(Ordering::SeqCst)
    }
    /// the request cap or the byte cap was hit: the client did not bound its work
    pub fn overflowed(&self) -> bool {
        self.inner.overflow.load(Ordering::SeqCst)
    }
}

struct MemStream {
    url: String,
    chunks: std::vec::IntoIter<Bytes>,
    delivered: usize,
    error_after: Option<usize>,
    endless: Option<usize>,
    pulled: Arc<AtomicU64>,
    inner: Arc<Inner>,
    done: bool,
}

impl Stream for MemStream {
    type Item = Result<Bytes, TransportError>;
    fn poll_next(mut self: Pin<&mut Self>, _cx: &mut Context<'_>) -> Poll<Option<Self::Item>> {
        if self.done {
            return Poll::Ready(None);
        }
        let obs = self.inner.observer.lock().unwrap().clone();
        if let Some(obs) = obs {
            obs(&self.url, self.delivered);
        }
        if let Some(n) = self.error_after {
            if self.delivered >= n {
                self.done = true;
                return Poll::Ready(Some(Err(TransportError::new_with_cause(
                    TransportErrorKind::Other,
                    self.url.clone(),
                    "scripted transport error",
                ))));
            }
        }
        if let Some(sz) = self.endless {
            let total = self.pulled.fetch_add(sz as u64, Ordering::SeqCst) + sz as u64;
            if total > self.inner.byte_cap {
                self.inner.overflow.store(true, Ordering::SeqCst);
                self.done = true;
                return Poll::Ready(Some(Err(TransportError::new_with_cause(
                    TransportErrorKind::Other,
                    self.url.clone(),
                    "harness byte cap reached on endless stream",
                ))));
            }
            self.delivered += 1;
            return Poll::Ready(Some(Ok(Bytes::from(vec![b' '; sz]))));
        }
        match self.chunks.next() {
            Some(b) => {
                self.pulled.fetch_add(b.len() as u64, Ordering::SeqCst);
                self.delivered += 1;
                Poll::Ready(Some(Ok(b)))
            }
            None => {
                self.done = true;
                Poll::Ready(None)
            }
        }
    }
}

#[async_trait]
impl Transport for MemTransport {
    async fn fetch(
        &self,
        url: Url,
    ) -> Result<Pin<Box<dyn Stream<Item = Result<Bytes, TransportError>> + Send>>, TransportError> {
        let n = self.inner.requests.fetch_add(1, Ordering::SeqCst) + 1;
        let key = url.to_string();
        let resp = self.inner.files.lock().unwrap().get(&key).cloned();
        let pulled = Arc::new(AtomicU64::new(0));
        self.inner.log.lock().unwrap().push(LogEntry {
            url: key.clone(),
            pulled: pulled.clone(),
            known: resp.is_some(),
        });
        if n > self.inner.request_cap {
            self.inner.overflow.store(true, Ordering::SeqCst);
            return Err(TransportError::new_with_cause(
                TransportErrorKind::Other,
                key,
                "harness request cap reached",
            ));
        }
        let mk = |chunks: Vec<Bytes>, error_after: Option<usize>, endless: Option<usize>| MemStream {
            url: key.clone(),
            chunks: chunks.into_iter(),
            delivered: 0,
            error_after,
            endless,
            pulled: pulled.clone(),
            inner: self.inner.clone(),
            done: false,
        };
        match resp {
            None | Some(Resp::NotFound) => Err(TransportError::new(TransportErrorKind::FileNotFound, key)),
            Some(Resp::OpenError) => Err(TransportError::new_with_cause(
                TransportErrorKind::Other,
                key,
                "scripted open error",
            )),
            Some(Resp::Body(data, c)) => Ok(Box::pin(mk(c.split(&data), None, None))),
            Some(Resp::ErrorAfter(data, c, n)) => Ok(Box::pin(mk(c.split(&data), Some(n), None))),
            Some(Resp::Endless(sz)) => Ok(Box::pin(mk(Vec::new(), None, Some(sz.max(1))))),
        }
    }
}

/// Serves file:// URLs below `root` the way a web server maps request paths to files: the path is
/// percent-decoded, must stay inside `root`, query and fragment are ignored.
#[derive(Clone, Debug)]
pub struct DecodingDirTransport {
    pub root: PathBuf,
}

#[async_trait]
impl Transport for DecodingDirTransport {
    async fn fetch(
        &self,
        url: Url,
    ) -> Result<Pin<Box<dyn Stream<Item = Result<Bytes, TransportError>> + Send>>, TransportError> {
        let decoded = percent_encoding::percent_decode_str(url.path())
            .decode_utf8()
            .map_err(|e| TransportError::new_with_cause(TransportErrorKind::Other, url.clone(), e))?
            .to_string();
        let p = PathBuf::from(&decoded);
        let mut clean = PathBuf::new();
        for c in p.components() {
            match c {
                std::path::Component::ParentDir => {
                    clean.pop();
                }
                std::path::Component::CurDir => {}
                other => clean.push(other.as_os_str()),
            }
        }
        if !clean.starts_with(&self.root) {
            return Err(TransportError::new(TransportErrorKind::FileNotFound, url));
        }
        match tokio::fs::read(&clean).await {
            Ok(data) => {
                let chunks: Vec<Result<Bytes, TransportError>> =
                    data.chunks(8192).map(|c| Ok(Bytes::copy_from_slice(c))).collect();
                Ok(Box::pin(futures::stream::iter(chunks)))
            }
            Err(e) if e.kind() == std::io::ErrorKind::NotFound || e.kind() == std::io::ErrorKind::NotADirectory => {
                Err(TransportError::new_with_cause(TransportErrorKind::FileNotFound, url, e))
            }
            Err(e) => Err(TransportError::new_with_cause(TransportErrorKind::Other, url, e)),
        }
    }
}
