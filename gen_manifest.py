#!/usr/bin/env python3
"""Writes /verif/MANIFEST.json. Edit CHECKS below; run after adding a property module."""
import json

# id -> (level category, level text, level note, technique, design_ref)
CHECKS = {
 "C12": ("exploration",
   "Random forged repositories carrying 0..7 unknown members injected before signing at the 11 object levels tough carries along; for each of root, timestamp, snapshot, targets and a delegated role EVERY single-point mutation of the signed portion (each scalar changed, member inserted / deleted / duplicated with another value before and after, array element deleted / duplicated / swapped) is served with the original signatures, plus neutral rewrites (must load) and 12 role swaps between documents sharing one key (must be refused). Oracle: if the client accepts a mutant, everything it exposes through public fields equals what it exposes for the signed original. Documents with extra members (interoperability clause) must verify; the two object levels where tough drops unknown members are a recorded known finding.",
   "Digest/length pins are switched off so that the signature check is what mutants meet. Key-object extras belong to C13. 'Exposed content' = public fields of the loaded documents, read without Serialize.",
   "exhaustive single-point mutation of signed documents per generated repository + metamorphic neutral rewrites (proptest)",
   "DESIGN.md section 4, C12"),
 "C14": ("exploration",
   "Cycle 1 stores timestamp/snapshot/targets at versions up to 2^63 / u64::MAX signed by a key that later stays or goes; one or two newer roots rotate timestamp, snapshot, targets and root keys independently (all replaced, one of two replaced, one removed, one added); cycle 2 walks the chain and sees a repository restarted at low versions. The full grid {which roles rotate} x {kind} x {signer stays/goes} x {1,2 new roots} is enumerated, plus random histories. Oracle: timestamp or snapshot keys replaced => accepted (unless the targets version went down under unchanged targets keys); nothing replaced => refused as a rollback.",
   "Rotate-and-rotate-back and threshold-only changes are left to C03. Cycle 2 ships the root that cycle 1 trusted.",
   "history-based property testing + exhaustive rotation grid (proptest)",
   "DESIGN.md section 4, C14"),
 "C15": ("fault_enumeration",
   "The interrupted update cycle runs in a child process under strace. Pass 1 records every system call that touches the datastore directory; pass 2 re-runs the identical cycle once per recorded call and per fault (SIGKILL on entry, EIO, and ENOSPC for creating/writing calls) using strace's inject= restricted to that file with -P; the injected run's own trace must show the fault on the expected call, else the run is inconclusive. On copies of the datastore left behind: a cycle against the replayed older repository must fail, a cycle against the current repository must succeed. 12 histories (24 in thorough) x about 80 fault points each.",
   "Process death and failing system calls with the page cache intact (no power loss, no torn write). The client runs single-threaded for reproducibility. Needs ptrace; without it the check exits 2.",
   "system-call fault enumeration with strace (SIGKILL / ENOSPC / EIO at every datastore call) over generated histories",
   "DESIGN.md section 4, C15"),
 "C20": ("exploration",
   "Command sequences of up to 12 `tuftool root` invocations (init, add-key, remove-key, set-threshold, set-version, bump-version, expire, sign with key subsets, --ignore-threshold, --cross-sign against earlier saved roots, plus invalid invocations) run against the real binary built from /repo; 72 key-rotation scripts exhaustively plus random template-based sequences. After every step: failure => file bytes unchanged; success => parses as Signed<Root> with independently recomputed key ids; content changed => signatures empty; plain successful sign => verifies under its own root keys (tough's verify_role and an independent count); a model predicts version, expiry, thresholds and key membership.",
   "tuftool debug binary built into /verif/harness/target-tuftool from /repo's working tree on every run. Exit status is observed, never predicted.",
   "stateful (command-sequence) property testing of the CLI against a model + exhaustive rotation scripts (proptest)",
   "DESIGN.md section 4, C20"),
 "C08": ("exploration",
   "Every string of length <=4 (quick) / <=5 (thorough) over {a . / \\ space % ~ :} is used as a target name (exhaustive part), plus random names from path-significant tokens up to 40 characters, in both file-name prefix modes: accepted names are put into a forged repository and saved into a fresh sandbox with decoy siblings; the whole sandbox is compared before/after (Ok => exactly one new regular file inside the canonical output directory holding the signed bytes; Err => no file created or modified; an absolute resolved name is never created). Random transfers (corruption, oversize, transport error at chunk k, pre-existing destination) run with an observer that the transport calls before every chunk and that reads the destination path: absent or old bytes only; after a failure no temporary file stays behind and a previous file is intact.",
   "'Every moment' = every boundary between transport chunks (the observer lives in the transport stream). Runs as root in a temporary directory: a traversal by a broken tree is detected after it happened.",
   "exhaustive small-scope enumeration of target names + property-based fault injection with a mid-transfer observer (proptest)",
   "DESIGN.md section 4, C08"),
 "C09": ("exploration",
   "Random repositories with a root chain, a delegated role smaller or larger than targets.json and per-role limits from {0, size-1, size, size+1, default}, length/digest pins present or absent, transport chunk sizes 1..60000 and optionally one padded or endless answer: Ok iff every served file is within its own bound (pinned length, else the role's limit), bytes pulled per request <= bound + one chunk. Exhaustive grid of 0..5 available root updates x max_root_updates 0..7. Random delegation graphs with self-delegation, mutual delegation and diamonds: total requests <= 3 + root requests + number of simple delegation paths, the harness' request cap is never reached, acyclic graphs load.",
   "The request bound is the lenient 'simple paths' count (a per-path or a per-role client both satisfy it). Hostile answers are limited to padding and endless streams.",
   "property-based testing with scripted oversize/endless transports and generated delegation graphs + exhaustive root-limit grid (proptest)",
   "DESIGN.md section 4, C09"),
 "C16": ("exploration",
   "Every delegated role name of length <=3 (quick) / <=4 (thorough) over {a / \\ . % ? # : space U+0001 e-acute 2 F} including the empty name (exhaustive part), percent-encoded spellings of other names, '.', '..', 'x.json', and random names up to 64 characters are packed about 120 per repository and observed at four places: URLs requested during load and cache_metadata, files created in the datastore, files written by cache_metadata, files written by the real editor (delegate_role / sign / write) which are then re-loaded through FilesystemTransport. Each must be a single plain entry directly inside its directory (sandbox diff), and name -> file name must be injective across the whole enumeration (shared map).",
   "Names equal to top-level file stems (root, snapshot, targets, timestamp, <digits>.<those>, latest_known_time) are outside the quantified domain (TUF precondition) and only recorded as notes. Names are capped at 82 UTF-8 bytes (NAME_MAX after percent-encoding).",
   "exhaustive small-scope enumeration of role names + property-based testing with sandbox diffs and a global injectivity map (proptest)",
   "DESIGN.md section 4, C16"),
 "C01": ("exploration",
   "At each of the 8 verification sites (shipped root self-check, root hop under old keys, under new keys, timestamp, snapshot, targets, delegated role at depth 1 and 2) every signature list up to length 3 (quick) / 4 (thorough) over the property's vocabulary is enumerated for 2 ed25519 keys and thresholds 1..2 (flagged exhaustive), plus thousands of random cases with 1..4 keys of mixed algorithms (ed25519 / ecdsa-p256 / rsa-pss), thresholds 1..4 and lists up to length 5. Each case is a forged repository loaded through RepositoryLoader::load, and the parsed documents are also passed to the public verify_role; acceptance must equal 'distinct authorized table-listed keys with a genuinely valid signature >= threshold', computed from the case alone, and a rejection must be the signature-threshold error of that site.",
   "Signature validity itself is aws-lc's; documents are canonicalised and signed by the harness' own forge (not by olpc-cjson/tough). No cryptanalysis.",
   "property-based testing with an independent forge + exhaustive small-scope enumeration of signature lists (proptest)",
   "DESIGN.md section 4, C01"),
 "C02": ("exploration",
   "Random root chains of 0..4 hops with a rotation kind per hop for the root role and the online roles, at most one hop broken in one of 9 ways, any chain version shipped, shipped roots failing their own threshold, expired intermediates, online metadata signed by the keys of any epoch; plus the full grid chain length x rotation kind x broken kind x position. Oracle: a model of the walk written from the statement (both 'fail' and 'stop before the broken hop' accepted, going past it never); observed: load result, trusted root version, exact sequence of N.root.json requests.",
   "The three online roles share one key set per root version. A root served as N+1.root.json whose version skips ahead is accepted (the statement only requires 'higher').",
   "model-based property testing over generated root chains + exhaustive grid (proptest)",
   "DESIGN.md section 4, C02"),
 "C03": ("exploration",
   "Histories of 2..4 update cycles on one datastore directory: all 13122 two-cycle version pairs over {1,2,3}^4 without key change (exhaustive, both snapshot modes), random one-root histories with internally inconsistent (failing, partly persisted) cycles, and random histories in which roots 2 and 3 change the timestamp / snapshot / targets keys (replace, add, raise threshold, rotate back) with free choice of shipped and newest served root per cycle. Two-sided oracle from the statement: no rollback between successful cycles unless a newer root changed the keys concerned; a cycle at least as new as everything served before must succeed. Two genuine defects are recorded as known findings (see known_findings.json) and excluded by their signatures so that the search continues behind them.",
   "The root role's own keys are constant here (C02 covers them). The exemption clause is read permissively (any newer root the client walked to after the earlier cycle); for the snapshot-listed targets version the role concerned is snapshot/timestamp as in the TUF specification.",
   "stateful (history) property testing against a reference model + exhaustive two-cycle grid (proptest)",
   "DESIGN.md section 4, C03"),
 "C04": ("exploration",
   "The harness owns the client's clock through the verif-hooks feature. Every subset of {root, timestamp, snapshot, targets} expired x enforcement {default, Safe, Unsafe} is enumerated (exhaustive part); random cases place each role's expiry T0 +/- 1 ms .. 50 years and run up to 6 operations (load / read_target / save_target) at clock values reached by forward and backward jumps or placed just before / after a chosen expiry, on one datastore, with 0..2 expired intermediate roots. Oracle from the statement: Safe: load Ok iff nothing has expired, read/save fail iff the earliest expiry has passed, any operation with a clock earlier than a recorded time fails with the stepped-backward error; Unsafe: nothing fails.",
   "Clock = thread-local override read by Datastore::system_time (hook, guarded by cargo feature verif-hooks). The instant now == expires is never used as a test point.",
   "property-based testing with a controlled clock over operation sequences + exhaustive subset grid (proptest)",
   "DESIGN.md section 4, C04"),
 "C05": ("exploration",
   "Three internally consistent, correctly signed repository states; a serving plan answers the request for timestamp, snapshot, targets and two delegated roles from independently chosen states: all 243 plans x both snapshot modes exhaustively with version-only pins, plus random plans with digest/length pins present or absent and byte variants that keep signatures valid (re-serialised, extra signature entry, trailing newline, member re-order of equal length). Ok iff every served file matches version, digest and length pinned by the accepted parent and every delegated role is listed; under consistent snapshots exactly the version-prefixed names of the pinning documents are requested.",
   "Fresh datastore per case. Each role has its own version numbering so that a version taken from the wrong document is visible.",
   "property-based differential testing of mix-and-match serving plans + exhaustive plan enumeration (proptest)",
   "DESIGN.md section 4, C05"),
 "C06": ("exploration",
   "For one 64-byte target every single-bit flip, truncation point, chunk-error position, small extension and two-chunk split is enumerated (exhaustive part); random cases cover lengths 0..64 KiB, arbitrary chunkings including empty chunks, substitution by another signed target, endless streams, top-level and delegated targets, plain / sub-directory / resolvable / unlisted names, both snapshot modes. The stream's items are checked against the statement: no error => exactly the signed bytes; any other served content => error; never more than the signed length handed over; unlisted => not found without a request; one request, digest-prefixed under consistent snapshots.",
   "The caller stops at the first error item. SHA-256 collisions out of scope.",
   "property-based fault injection on the transport stream + exhaustive single-fault enumeration (proptest)",
   "DESIGN.md section 4, C06"),
 "C07": ("exploration",
   "Random delegation trees (<=7 roles, depth <=3, fan-out <=3) with glob and hash-prefix path sets and up to 6 placements over a vocabulary with resolvable names and the same name in several roles with distinct content. Oracle: an independent pre-order lookup; the repository must be refused iff some listed name is reached by nobody; for every vocabulary name only the content of the model's entry verifies (every other placement of that resolved name is served and must be refused) or 'not found' iff the model finds nothing.",
   "Whether '*' and '?' may match '/' is taken from the library for the pairs where it matters (labelled primitive-from-library in the evidence); everything else is decided by the harness' own matcher. The terminating flag is not part of the statement.",
   "model-based property testing of delegation lookup (proptest)",
   "DESIGN.md section 4, C07"),
 "C13": ("exploration",
   "Key tables of 1..4 keys of every supported type and encoding (rsa PEM, ed25519 hex, ecdsa PEM / hex point, both ecdsa key-type spellings) with unknown extra members, in root.json and in delegations.keys, with one identifier mutated (bit flips, swap, copy, truncation, other hex case, duplicate entry in either spelling): an exhaustive grid of mutation kind x key type x table plus thousands of random tables. Parse (and, for half of the cases, a full load of a forged repository signed after the mutation) must succeed iff every identifier decodes to the SHA-256 of the harness' own canonical form of the key object and none repeats; identifiers of imported/generated keys are stable across serialise / parse rounds.",
   "Key ids are recomputed with the harness' own canonical JSON and SHA-256; tough is never asked for an identifier on the oracle side.",
   "property-based testing with an independent key-id oracle + exhaustive mutation grid (proptest)",
   "DESIGN.md section 4, C13"),
 "C18": ("fault_enumeration",
   "A scripted HTTP/1.1 server on 127.0.0.1 answers the i-th request of a fetch with the i-th action of a fault script over {200 full, 200 stalled after k bytes, 500, 503, 403, 404, 410, 400, 416}, with and without Accept-Ranges (206 from the requested offset). All scripts of length <=2 (quick) / <=3 (thorough) for tries 1..2 in both range modes are enumerated, plus random scripts up to tries+2 for tries 1..4 and sizes 0..256 KiB. Safety on every script: delivered bytes are always an in-order prefix, clean end => whole resource, 403/404/410 => FileNotFound without retry, other 4xx => immediate error, requests <= tries, Range only after the server announced support and at the delivered offset. Liveness only for stall-free scripts.",
   "Stall handling relies on the client's own 150 ms timer; no wall-clock measurement is a correctness signal. Loopback TCP only.",
   "fault-script enumeration against a scripted HTTP server + random fault scripts (proptest)",
   "DESIGN.md section 4, C18"),
 "C11": ("exploration",
   "Exhaustive enumeration of all key sets of size <=3 over the 73 strings of length <=2 from an 8-character alphabet in every insertion order (flagged exhaustive in the evidence), plus hundreds of thousands of random float-free JSON values of depth <=4 (millions in thorough) compared byte-for-byte with an independent canonicaliser, re-parsed by an independent strict parser (injectivity) and checked for insertion-order invariance; values containing floats must be refused. Exploration, not proof: the formatter's state machine is small and driven entirely by the shapes generated here.",
   "Trusts the harness' own reference canonicaliser/parser and its hand-made NFC atom table; unicode normalisation of arbitrary text outside the table is not examined.",
   "property-based differential testing against a reference canonicaliser + exhaustive small-scope enumeration (proptest)",
   "DESIGN.md section 4, C11"),
}

NOT_YET = "check not built yet (work in progress; see DESIGN.md section 4 for the design)"

props = [json.loads(l) for l in open('/verif/properties.jsonl')]
checks, na = [], []
for p in props:
    i = p['id']
    if i in CHECKS:
        cat, text, note, tech, ref = CHECKS[i]
        checks.append({
            "property_id": i,
            "quick_cmd": f"./check {i} quick",
            "thorough_cmd": f"./check {i} thorough",
            "evidence_file": f"/verif/evidence/{i}.json",
            "replay_cmd_template": "./check --replay {path}",
            "engine": "tough-verif",
            "level_claimed": {"category": cat, "text": text, "design_ref": ref},
            "level_note": note,
            "technique": tech,
        })
    else:
        na.append({"property_id": i, "reason": NOT_YET})

man = {
 "version": 1,
 "setup_cmd": "./check --build all",
 "hooks": {
   "guard": "cargo feature `verif-hooks` on crate tough",
   "enable": "the harness crate (/verif/harness) depends on /repo/tough by path with features [\"http\", \"verif-hooks\"]; ./check rebuilds it from /repo's working tree on every call",
   "baseline_off_cmd": "cd /repo && cargo nextest run --workspace --no-fail-fast --tool-config-file pb:/w/lib/nextest.toml --profile pb --test-threads 8 --offline || cargo test --workspace --no-fail-fast --offline",
   "source_commits": ["7d8e802"],
   "add_only": True,
 },
 "engines": [
   {"name": "tough-verif", "path": "/verif/harness", "serves_properties": sorted(CHECKS),
    "kind_free_text": "Rust binary driving proptest TestRunners in parallel shards (seeded from VERIF_SEED), exhaustive small-scope enumerations, an independent repository forge, scripted transports, a scripted HTTP server, strace fault injection; shrinks failures to JSON replay files"},
 ],
 "checks": checks,
 "not_applicable": na,
 "notes": "exit 0 = held on everything explored (KNOWN-FINDING lines allowed), exit 1 = VIOLATION line, exit 2 = the machinery could not run (never a violation). known_findings.json lists recorded and fixed defects.",
}
json.dump(man, open('/verif/MANIFEST.json', 'w'), indent=1)
print("wrote MANIFEST.json:", len(checks), "checks,", len(na), "not applicable")
