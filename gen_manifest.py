#!/usr/bin/env python3
"""Writes /verif/MANIFEST.json. Edit CHECKS below; run after adding a property module."""
import json

# id -> (level category, level text, level note, technique, design_ref)
CHECKS = {
 "C11": ("exploration",
   "Exhaustive enumeration of all key sets of size <=3 over the 73 strings of length <=2 from an 8-character alphabet in every insertion order (flagged exhaustive in the evidence), plus hundreds of thousands of random float-free JSON values of depth <=4 (millions in thorough) compared byte-for-byte with an independent canonicaliser, re-parsed by an independent strict parser (injectivity) and checked for insertion-order invariance; values containing floats must be refused. Exploration, not proof: the formatter's state machine is small and driven entirely by the shapes generated here.",
   "Trusts the harness' own reference canonicaliser/parser and its hand-made NFC atom table; unicode normalisation of arbitrary text outside the table is not examined.",
   "property-based differential testing against a reference canonicaliser + exhaustive small-scope enumeration (proptest)",
   "DESIGN.md section 4, C11"),
}

NOT_YET = "check not built yet (work in progress; see DESIGN.md section 4 for the design)"

props = [json.loads(l) for l in open('/verif/properties.jsonl')]
checks, na = [], []
for p in props:
    i = p['id']
    if i in CHECKS:
        cat, text, note, tech, ref = CHECKS[i]
        checks.append({
            "property_id": i,
            "quick_cmd": f"./check {i} quick",
            "thorough_cmd": f"./check {i} thorough",
            "evidence_file": f"/verif/evidence/{i}.json",
            "replay_cmd_template": "./check --replay {path}",
            "engine": "tough-verif",
            "level_claimed": {"category": cat, "text": text, "design_ref": ref},
            "level_note": note,
            "technique": tech,
        })
    else:
        na.append({"property_id": i, "reason": NOT_YET})

man = {
 "version": 1,
 "setup_cmd": "./check --build all",
 "hooks": {
   "guard": "cargo feature `verif-hooks` on crate tough",
   "enable": "the harness crate (/verif/harness) depends on /repo/tough by path with features [\"http\", \"verif-hooks\"]; ./check rebuilds it from /repo's working tree on every call",
   "baseline_off_cmd": "cd /repo && cargo nextest run --workspace --no-fail-fast --tool-config-file pb:/w/lib/nextest.toml --profile pb --test-threads 8 --offline || cargo test --workspace --no-fail-fast --offline",
   "source_commits": ["7d8e802"],
   "add_only": True,
 },
 "engines": [
   {"name": "tough-verif", "path": "/verif/harness", "serves_properties": sorted(CHECKS),
    "kind_free_text": "Rust binary driving proptest TestRunners in parallel shards (seeded from VERIF_SEED), exhaustive small-scope enumerations, an independent repository forge, scripted transports, a scripted HTTP server, strace fault injection; shrinks failures to JSON replay files"},
 ],
 "checks": checks,
 "not_applicable": na,
 "notes": "exit 0 = held on everything explored (KNOWN-FINDING lines allowed), exit 1 = VIOLATION line, exit 2 = the machinery could not run (never a violation). known_findings.json lists recorded and fixed defects.",
}
json.dump(man, open('/verif/MANIFEST.json', 'w'), indent=1)
print("wrote MANIFEST.json:", len(checks), "checks,", len(na), "not applicable")
