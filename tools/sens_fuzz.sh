#!/bin/sh
# Sensitivity run of one libFuzzer target against a mutated SCRATCH COPY of /repo (never /repo itself).
#   tools/sens_fuzz.sh <target> <file-relative-to-repo> <sed-expression> [runs] [max_len]
# Copies /repo (without build output) and harness/fuzz to $SENS_DIR (default /var/tmp/sens-fuzz),
# points the fuzz crate's path dependencies at the copy, applies the sed expression to the copy,
# runs the target with the seed corpus, reports CAUGHT / MISSED, and removes the scratch directory.
# exit 0 = caught, 1 = missed, 2 = could not run (mutation did not change the file, build failed).
set -u
T=$1; F=$2; SED=$3; RUNS=${4:-300000}; ML=${5:-2048}
HERE=$(cd "$(dirname "$0")/.." && pwd)
S=${SENS_DIR:-/var/tmp/sens-fuzz}
case "$S" in /repo*|/verif*|"") echo "refusing scratch dir $S" >&2; exit 2;; esac
rm -rf "$S"; mkdir -p "$S" || exit 2
trap 'rm -rf "$S"' EXIT INT TERM
rsync -a --exclude target --exclude .git /repo/ "$S/repo/" || exit 2
rsync -a --exclude target --exclude artifacts --exclude corpus "$HERE/harness/fuzz/" "$S/fuzz/" || exit 2
sed -i "s#/repo/#$S/repo/#g" "$S/fuzz/Cargo.toml"
cp "$S/repo/$F" "$S/orig"
sed -i "$SED" "$S/repo/$F"
if cmp -s "$S/orig" "$S/repo/$F"; then echo "$T: mutation did not change $F" >&2; exit 2; fi
diff -u "$S/orig" "$S/repo/$F" | sed -n '3,12p'
mkdir -p "$S/corpus" "$S/art"
cd "$S" || exit 2
CARGO_NET_OFFLINE=true CARGO_TERM_COLOR=never cargo +nightly fuzz build --fuzz-dir "$S/fuzz" "$T" >"$S/build.log" 2>&1 || { tail -20 "$S/build.log" >&2; exit 2; }
CARGO_NET_OFFLINE=true CARGO_TERM_COLOR=never cargo +nightly fuzz run --fuzz-dir "$S/fuzz" "$T" "$S/corpus" "$S/fuzz/seeds/$T" -- \
    -runs="$RUNS" -seed=1 -len_control=0 -max_len="$ML" -artifact_prefix="$S/art/" -print_final_stats=1 >"$S/run.log" 2>&1
if ls "$S/art" | grep -q .; then
    echo "$T CAUGHT: $(grep -m1 'panicked at' -A1 "$S/run.log" | tr '\n' ' ' | cut -c1-300)"
    echo "  after $(grep -c '^#' "$S/run.log") status lines; $(grep 'stat::number_of_executed_units' "$S/run.log")"
    exit 0
fi
echo "$T MISSED: $(grep 'stat::number_of_executed_units' "$S/run.log")"
exit 1
