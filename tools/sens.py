#!/usr/bin/env python3
"""Sensitivity harness: apply one small mutation to /repo's working tree, run the quick check(s)
that should notice, revert. Usage: tools/sens.py [mutation-id ...] (default: all).
Never leaves /repo modified (git checkout in a finally block); refuses to start on a dirty tree."""
import subprocess, sys, json, time, os, re

MUTS = json.load(open(os.path.join(os.path.dirname(__file__), 'mutations.json')))

def sh(cmd, **kw):
    return subprocess.run(cmd, shell=True, capture_output=True, text=True, **kw)

def main():
    want = sys.argv[1:]
    if sh('git -C /repo status --porcelain').stdout.strip():
        print('refusing: /repo working tree is dirty'); sys.exit(2)
    results = []
    for m in MUTS:
        if want and m['id'] not in want and not any(m['id'].startswith(w) for w in want):
            continue
        path = '/repo/' + m['file']
        src = open(path).read()
        if src.count(m['old']) != 1:
            print(f"{m['id']}: pattern occurs {src.count(m['old'])} times, skipped"); results.append((m['id'], 'SKIP')); continue
        try:
            open(path, 'w').write(src.replace(m['old'], m['new']))
            for prop in m['props']:
                t = time.time()
                r = sh(f'cd /verif && ./check {prop} quick')
                dt = time.time() - t
                viol = [l for l in r.stdout.splitlines() if l.startswith('VIOLATION')]
                status = 'CAUGHT' if r.returncode == 1 and viol else ('BUILD/HARNESS-ERROR' if r.returncode == 2 else 'MISSED')
                msg = [l for l in r.stderr.splitlines() if l.startswith('violation in part')]
                print(f"{m['id']:40s} {prop} {status:8s} {dt:5.1f}s {msg[0][:160] if msg else r.stderr.strip()[-200:] if status!='MISSED' else ''}")
                results.append((m['id'] + ':' + prop, status))
        finally:
            sh(f"git -C /repo checkout -- {m['file']}")
    # remove replay files produced by mutations
    sh('cd /verif && git clean -fdq replays')
    bad = [r for r in results if r[1] != 'CAUGHT']
    print(f"{len(results) - len(bad)}/{len(results)} caught")
    sys.exit(1 if bad else 0)
main()
