#!/usr/bin/env python3
"""Sensitivity harness: apply one small mutation at a time to a SCRATCH COPY of /repo (never /repo
itself), run the quick check(s) that should notice from a scratch copy of /verif whose harness
points at the mutated copy, and report. Usage: tools/sens.py [mutation-id-prefix ...] (default: all).
Scratch space: /tmp/sens (removed with tools/sens.py --clean)."""
import subprocess, sys, json, time, os, shutil

HERE = os.path.dirname(os.path.abspath(__file__))
MUTS = json.load(open(os.path.join(HERE, 'mutations.json')))
S = '/tmp/sens'

def sh(cmd, **kw):
    return subprocess.run(cmd, shell=True, capture_output=True, text=True, **kw)

def prepare():
    os.makedirs(S, exist_ok=True)
    sh(f'rsync -a --delete --exclude target /repo/ {S}/repo/')
    sh(f'rsync -a --delete --exclude target-tuftool --exclude /replays --exclude /evidence /verif/ {S}/verif/')
    ct = f'{S}/verif/harness/Cargo.toml'
    t = open(ct).read().replace('/repo/tough', f'{S}/repo/tough').replace('/repo/olpc-cjson', f'{S}/repo/olpc-cjson')
    open(ct, 'w').write(t)
    # the harness builds tuftool from /repo: redirect through the environment
    os.environ['VERIF_REPO_DIR'] = f'{S}/repo'

def main():
    args = sys.argv[1:]
    if args == ['--clean']:
        shutil.rmtree(S, ignore_errors=True); return
    prepare()
    results = []
    for m in MUTS:
        if args and not any(m['id'].startswith(w) for w in args):
            continue
        path = f"{S}/repo/" + m['file']
        src = open(path).read()
        if src.count(m['old']) != 1:
            print(f"{m['id']}: pattern occurs {src.count(m['old'])} times, skipped"); results.append((m['id'], 'SKIP')); continue
        try:
            open(path, 'w').write(src.replace(m['old'], m['new']))
            for prop in m['props']:
                t = time.time()
                r = sh(f'cd {S}/verif && ./check {prop} quick')
                dt = time.time() - t
                viol = [l for l in r.stdout.splitlines() if l.startswith('VIOLATION')]
                status = 'CAUGHT' if r.returncode == 1 and viol else ('HARNESS-ERROR' if r.returncode == 2 else 'MISSED')
                msg = [l for l in r.stderr.splitlines() if l.startswith('violation in part')]
                print(f"{m['id']:42s} {prop} {status:8s} {dt:5.1f}s {msg[0][:170] if msg else (r.stderr.strip()[-300:] if status != 'MISSED' else '')}", flush=True)
                results.append((m['id'] + ':' + prop, status))
        finally:
            open(path, 'w').write(src)
    bad = [r for r in results if r[1] != 'CAUGHT']
    print(f"{len(results) - len(bad)}/{len(results)} caught")
    sys.exit(1 if bad else 0)
main()
