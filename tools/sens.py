#!/usr/bin/env python3
"""Sensitivity harness: apply one small mutation at a time to a SCRATCH COPY of /repo (never /repo
itself), run the quick check(s) that should notice from a scratch copy of /verif whose harness
points at the mutated copy, and report. Usage: tools/sens.py [mutation-id-prefix ...] (default: all).
Scratch space: /tmp/sens (removed with tools/sens.py --clean)."""
import subprocess, sys, json, time, os, shutil

HERE = os.path.dirname(os.path.abspath(__file__))
MUTS = json.load(open(os.path.join(HERE, 'mutations.json')))
S = os.environ.get('SENS_DIR', '/tmp/sens')

def sh(cmd, **kw):
    return subprocess.run(cmd, shell=True, capture_output=True, text=True, **kw)

def prepare():
    os.makedirs(S, exist_ok=True)
    sh(f'rsync -a --delete --exclude target /repo/ {S}/repo/')
    sh(f'rsync -a --delete --exclude target-tuftool --exclude /replays --exclude /evidence /verif/ {S}/verif/')
    ct = f'{S}/verif/harness/Cargo.toml'
    t = open(ct).read().replace('/repo/tough', f'{S}/repo/tough').replace('/repo/olpc-cjson', f'{S}/repo/olpc-cjson')
    open(ct, 'w').write(t)
    # the harness builds tuftool from /repo: redirect through the environment
    os.environ['VERIF_REPO_DIR'] = f'{S}/repo'

def run_patch(patch, props):
    """tools/sens.py --patch <patch.diff> C01 C02 ...: apply a seeded change to the scratch copy, run the named checks"""
    prepare()
    r = sh(f'cd {S}/repo && git apply --whitespace=nowarn {patch}')
    if r.returncode != 0:
        # rsync excluded nothing of .git, so `git apply` works; try with 3-way as a fallback
        r = sh(f'cd {S}/repo && git apply --3way --whitespace=nowarn {patch}')
        if r.returncode != 0:
            print('patch does not apply:', r.stderr.strip()[-400:]); sys.exit(2)
    ok = True
    for prop in props:
        t = time.time()
        r = sh(f'cd {S}/verif && ./check {prop} quick')
        dt = time.time() - t
        viol = [l for l in r.stdout.splitlines() if l.startswith('VIOLATION')]
        status = 'CAUGHT' if r.returncode == 1 and viol else ('HARNESS-ERROR' if r.returncode == 2 else 'MISSED')
        msg = [l for l in r.stderr.splitlines() if l.startswith('violation in part')]
        print(f"{os.path.basename(os.path.dirname(patch)) or patch:30s} {prop} {status:8s} {dt:5.1f}s {msg[0][:300] if msg else (r.stderr.strip()[-300:] if status != 'MISSED' else '')}", flush=True)
        ok = ok and status == 'CAUGHT'
    sh(f'cd {S}/repo && git checkout -- . && git clean -fdq -e target')
    sys.exit(0 if ok else 1)

def main():
    args = sys.argv[1:]
    if args == ['--clean']:
        shutil.rmtree(S, ignore_errors=True); return
    if args and args[0] == '--patch':
        return run_patch(os.path.abspath(args[1]), args[2:])
    prepare()
    results = []
    for m in MUTS:
        if args and not any(m['id'].startswith(w) for w in args):
            continue
        path = f"{S}/repo/" + m['file']
        src = open(path).read()
        if src.count(m['old']) != 1:
            print(f"{m['id']}: pattern occurs {src.count(m['old'])} times, skipped"); results.append((m['id'], 'SKIP')); continue
        try:
            open(path, 'w').write(src.replace(m['old'], m['new']))
            for prop in m['props']:
                t = time.time()
                r = sh(f'cd {S}/verif && ./check {prop} quick')
                dt = time.time() - t
                viol = [l for l in r.stdout.splitlines() if l.startswith('VIOLATION')]
                status = 'CAUGHT' if r.returncode == 1 and viol else ('HARNESS-ERROR' if r.returncode == 2 else 'MISSED')
                msg = [l for l in r.stderr.splitlines() if l.startswith('violation in part')]
                print(f"{m['id']:42s} {prop} {status:8s} {dt:5.1f}s {msg[0][:170] if msg else (r.stderr.strip()[-300:] if status != 'MISSED' else '')}", flush=True)
                results.append((m['id'] + ':' + prop, status))
        finally:
            open(path, 'w').write(src)
    bad = [r for r in results if r[1] != 'CAUGHT']
    print(f"{len(results) - len(bad)}/{len(results)} caught")
    sys.exit(1 if bad else 0)
main()
